------------------------------- MODULE Abm -------------------------------
(***************************************************************************)
(* Agent-based engine of bptk_py: agent registry (create / delete /        *)
(* configure / reset / state changes), event queues with delayed events,   *)
(* the scheduler step and the run loop, and the data collector.            *)
(*                                                                         *)
(* One action per public operation of BPTK_Py.Model; the scheduler step is *)
(* the pure function StepF so that a whole run (Run) is its iteration.     *)
(* `hist' is the observation log used for conformance (spec -> code        *)
(* replay and code -> spec trace validation); it is hidden by VIEW in the  *)
(* exhaustive configurations.                                              *)
(* Properties: C11 (events), C12 (run loop), C13 (statistics), C14         *)
(* (registry).                                                             *)
(***************************************************************************)
EXTENDS Integers, Sequences, FiniteSets, TLC, Json

CONSTANTS Types,      \* agent type names
          Vals,       \* menu of values of the numeric agent property "v" (integers; value = v/2)
          Spawn,      \* type -> Seq of types of the agents its initialize() creates (nested create_agent)
          Configs,    \* menu of configure_agents specs: sequences of <<type, count, v>>
          MaxIds,     \* bound on the number of ids ever handed out
          MaxEvents,  \* bound on the number of events ever created
          MaxSteps,   \* bound on scheduler steps
          Delays,     \* menu of event delays, in 1/100 time units
          Dt100,      \* initial dt in 1/100 time units
          RunSpecs,   \* menu of <<start, stop, collect_data, dt>> for whole runs
          MaxPlans,   \* bound on planned deletions / creations / self-changes
          PlanAhead,  \* plans are made for steps step..step+PlanAhead
          Ops,        \* names of the enabled operations
          L           \* bound on Len(hist) in generator configurations

Unit == 100

VARIABLES agents,   \* Seq of [id, ty, st, v, inbox] in creation order (Model.agents)
          nextId,   \* Model.next_agent_id
          tmap,     \* Model.agent_type_map : type -> Seq of ids
          mq,       \* Model.events (+ Scheduler.delayed_events between steps): Seq of [eid, rem]
          step,     \* number of scheduler steps executed so far
          evs,      \* every event ever created: Seq of [rcv, name, ds, at, seq]; eid = index
          nsent,    \* number of events enqueued so far (send order)
          plan,     \* Seq of [snd, eid, k]: agent snd sends event eid from its act() in step index k
          handled,  \* history: Seq of [eid, by, at]
          alive,    \* history: eid -> was its receiver alive (and handling the name) when it fell due
          dt,       \* Model.dt in 1/100 time units
          hist      \* observation log

core == <<agents, nextId, tmap, mq, step, evs, nsent, plan, dt>>
vars == <<agents, nextId, tmap, mq, step, evs, nsent, plan, handled, alive, dt, hist>>

States == {"active", "idle"}
Names  == {"ping", "pong"}
\* handler tables of the reference agent class: "active" handles both names, "idle" only "ping"
Handles(st, name) == st = "active" \/ name = "ping"

None == 0 - 1
NoW == 0 - 999          \* "the agent has no property w" (w is an optional second numeric property, C13)
Min(S) == CHOOSE x \in S : \A y \in S : x <= y
Max(S) == CHOOSE x \in S : \A y \in S : x >= y
DefaultV == Min(Vals)
DSteps(d) == (d + dt - 1) \div dt                \* ceil(delay / dt)

Ids(ags) == {ags[i].id : i \in DOMAIN ags}
Pos(id, ags) == CHOOSE i \in DOMAIN ags : ags[i].id = id
IdsOfType(ty, ags) == LET s == SelectSeq(ags, LAMBDA a : a.ty = ty) IN [i \in DOMAIN s |-> s[i].id]

RECURSIVE SumSeq(_)
SumSeq(s) == IF s = <<>> THEN 0 ELSE Head(s) + SumSeq(Tail(s))
RECURSIVE Flat(_)
Flat(ss) == IF ss = <<>> THEN <<>> ELSE Head(ss) \o Flat(Tail(ss))

(***************************** queries (C14) *******************************)
Lookup(id, ags) == IF id \in Ids(ags) THEN [ty |-> ags[Pos(id, ags)].ty, st |-> ags[Pos(id, ags)].st]
                   ELSE [ty |-> "none", st |-> "none"]
CountPerState(ty, st, ags, tm) ==
    Cardinality({k \in DOMAIN tm[ty] : tm[ty][k] \in Ids(ags) /\ ags[Pos(tm[ty][k], ags)].st = st})
NextAgent(ty, st, ags) ==
    LET s == SelectSeq(ags, LAMBDA a : a.ty = ty /\ a.st = st) IN IF s = <<>> THEN None ELSE s[1].id
Queries(ags, tm, nid) ==
    [ids  |-> [ty \in Types |-> tm[ty]],
     cnt  |-> [ty \in Types |-> Len(tm[ty])],
     cps  |-> [ty \in Types |-> [st \in States |-> CountPerState(ty, st, ags, tm)]],
     nxt  |-> [ty \in Types |-> [st \in States |-> NextAgent(ty, st, ags)]],
     look |-> [k \in 1..(nid + 1) |-> Lookup(k - 1, ags)],     \* ids 0..nid (nid itself is never alive)
     nid  |-> nid]

(**************************** statistics (C13) *****************************)
\* declarative definition: aggregates over exactly the agents of the type in the state
Members(ty, st, ags) == {i \in DOMAIN ags : ags[i].ty = ty /\ ags[i].st = st}
RECURSIVE SumSet(_, _)
SumSet(S, ags) == IF S = {} THEN 0 ELSE LET i == CHOOSE x \in S : TRUE IN ags[i].v + SumSet(S \ {i}, ags)
RECURSIVE SumW(_, _)
SumW(S, ags) == IF S = {} THEN 0 ELSE LET i == CHOOSE x \in S : TRUE IN ags[i].w + SumW(S \ {i}, ags)
WOf(M, ags) == LET H == {i \in M : ags[i].w # NoW} IN        \* the second property: over the members that have it
               IF H = {} THEN [count |-> 0, total |-> 0, min |-> 0, max |-> 0]
               ELSE [count |-> Cardinality(H), total |-> SumW(H, ags), min |-> Min({ags[i].w : i \in H}), max |-> Max({ags[i].w : i \in H})]
StatOf(ty, st, ags) ==
    LET M == Members(ty, st, ags) IN
    IF M = {} THEN [count |-> 0, total |-> 0, min |-> 0, max |-> 0, w |-> WOf({}, ags)]
    ELSE [count |-> Cardinality(M), total |-> SumSet(M, ags),
          min |-> Min({ags[i].v : i \in M}), max |-> Max({ags[i].v : i \in M}), w |-> WOf(M, ags)]
Stats(ags) == [ty \in Types |-> [st \in States |-> StatOf(ty, st, ags)]]
\* the incremental algorithm of DataCollector.collect_agent_statistics, as a fold over the agent list
RECURSIVE Fold(_, _, _)
Fold(ags, i, acc) ==
    IF i > Len(ags) THEN acc
    ELSE LET a == ags[i]  old == acc[a.ty][a.st]
             oldw == old.w
             neww == IF a.w = NoW THEN oldw
                     ELSE IF oldw.count = 0 THEN [count |-> 1, total |-> a.w, min |-> a.w, max |-> a.w]
                     ELSE [count |-> oldw.count + 1, total |-> oldw.total + a.w,
                           min |-> IF a.w < oldw.min THEN a.w ELSE oldw.min, max |-> IF a.w > oldw.max THEN a.w ELSE oldw.max]
             new == IF old.count = 0
                    THEN [count |-> 1, total |-> a.v, min |-> a.v, max |-> a.v, w |-> neww]
                    ELSE [count |-> old.count + 1, total |-> old.total + a.v,
                          min |-> IF a.v < old.min THEN a.v ELSE old.min,
                          max |-> IF a.v > old.max THEN a.v ELSE old.max, w |-> neww]
         IN Fold(ags, i + 1, [acc EXCEPT ![a.ty][a.st] = new])
FoldStats(ags) == Fold(ags, 1, [ty \in Types |-> [st \in States |-> [count |-> 0, total |-> 0, min |-> 0, max |-> 0,
                                                                       w |-> [count |-> 0, total |-> 0, min |-> 0, max |-> 0]]]])

(************************** scheduler step (C11, C12) **********************)
RECURSIVE Deliver(_, _)
Deliver(due, ags) ==     \* due: Seq of eids in queue order; an event for a dead id is dropped
    IF due = <<>> THEN ags
    ELSE LET e == Head(due)  r == evs[e].rcv
         IN IF r \in Ids(ags) THEN Deliver(Tail(due), [ags EXCEPT ![Pos(r, ags)].inbox = Append(@, e)])
            ELSE Deliver(Tail(due), ags)

\* create_agent: the factory gets id nid, next_agent_id is bumped, initialize() runs (and may itself
\* create agents, which are appended *before* their parent), then the agent is appended
Kids(ty, nid) == [k \in DOMAIN Spawn[ty] |-> [id |-> nid + k, ty |-> Spawn[ty][k], st |-> "active", v |-> DefaultV, w |-> NoW, inbox |-> <<>>]]
MadeW(ty, v, w, nid) == Kids(ty, nid) \o << [id |-> nid, ty |-> ty, st |-> "active", v |-> v, w |-> w, inbox |-> <<>>] >>
Made(ty, v, nid) == MadeW(ty, v, NoW, nid)
RECURSIVE AddAll(_, _)
AddAll(tm, new) == IF new = <<>> THEN tm ELSE AddAll([tm EXCEPT ![Head(new).ty] = Append(@, Head(new).id)], Tail(new))
\* delete_agents: new list object without the ids; the type map is rebuilt for the types of removed agents
Without(ids, ags) == SelectSeq(ags, LAMBDA a : a.id \notin ids)
Rebuilt(ids, ags, tm) == [ty \in Types |-> IF \E i \in DOMAIN ags : ags[i].id \in ids /\ ags[i].ty = ty
                                           THEN IdsOfType(ty, Without(ids, ags)) ELSE tm[ty]]

\* What one agent does in act(): its planned actions for this step, in plan order.
\*   "send": enqueue event eid;  "del": model.delete_agent(arg);  "new": model.create_agent(arg);
\*   "st" / "val": the agent changes its own state / the value of its property v
\* The scheduler loop is `for agent in model.agents`: it iterates over the list *object* it started
\* with.  delete_agents rebinds model.agents to a new list (the loop keeps walking the old one, so a
\* victim later in the list still handles and acts in this step); create_agent appends to the current
\* list, which is seen by the loop only while no deletion has rebound it (ListIteration).
RECURSIVE DoPlans(_, _)
DoPlans(todo, A) ==
    IF todo = <<>> THEN A
    ELSE LET p == Head(todo) IN
         DoPlans(Tail(todo),
           CASE p.kind = "send" -> [A EXCEPT !.fired = Append(@, p.eid)]
             [] p.kind = "del"  -> [A EXCEPT !.reg = Without({p.arg}, A.reg), !.tm = Rebuilt({p.arg}, A.reg, A.tm),
                                             !.rebound = TRUE, !.gone = @ \cup ({p.arg} \cap Ids(A.reg))]
             [] p.kind = "st"   -> [A EXCEPT !.reg = [i \in DOMAIN @ |-> IF @[i].id = p.snd THEN [@[i] EXCEPT !.st = p.arg] ELSE @[i]]]
             [] p.kind = "val"  -> [A EXCEPT !.reg = [i \in DOMAIN @ |-> IF @[i].id = p.snd THEN [@[i] EXCEPT !.v = p.arg] ELSE @[i]]]
             [] p.kind = "w"    -> [A EXCEPT !.reg = [i \in DOMAIN @ |-> IF @[i].id = p.snd THEN [@[i] EXCEPT !.w = p.arg] ELSE @[i]]]   \* the agent gives itself the property
             [] p.kind = "new"  -> IF A.nid + 1 + Len(Spawn[p.arg]) > MaxIds THEN A
                                   ELSE LET made == Made(p.arg, DefaultV, A.nid) IN
                                        [A EXCEPT !.reg = @ \o made, !.tm = AddAll(@, made),
                                                  !.iter = IF A.rebound THEN @ ELSE @ \o made,
                                                  !.nid = @ + Len(made), !.born = @ \cup Ids(made)])
RECURSIVE ActLoop(_, _, _)
ActLoop(i, A, S) ==
    IF i > Len(A.iter) THEN A
    ELSE LET me == A.iter[i].id
             todo == SelectSeq(S.plan, LAMBDA x : x.snd = me /\ x.k = S.step)
             A1 == [A EXCEPT !.calls = @ \o <<"h" \o ToString(me), "a" \o ToString(me)>>]
         IN ActLoop(i + 1, DoPlans(todo, A1), S)

ModelId == 0 - 1        \* "sender" of the actions planned for Model.end_round
RECURSIVE EndPlans(_, _)
EndPlans(todo, reg) ==
    IF todo = <<>> THEN reg
    ELSE LET p == Head(todo) IN
         EndPlans(Tail(todo), [i \in DOMAIN reg |-> IF reg[i].id = p.eid
                                                       THEN (IF p.kind = "est" THEN [reg[i] EXCEPT !.st = p.arg] ELSE [reg[i] EXCEPT !.v = p.arg])
                                                       ELSE reg[i]])

\* S = [agents, mq, step, evs, nsent, plan, nid, tm]; returns the new S plus what the step did
StepF(S) ==
    LET dueQ   == SelectSeq(S.mq, LAMBDA q : q.rem = 0)
        due    == [i \in DOMAIN dueQ |-> dueQ[i].eid]
        lateQ  == SelectSeq(S.mq, LAMBDA q : q.rem > 0)
        later  == [i \in DOMAIN lateQ |-> [lateQ[i] EXCEPT !.rem = @ - 1]]
        ags1   == Deliver(due, S.agents)
        hOf(i) == LET ib == SelectSeq(ags1[i].inbox, LAMBDA e : Handles(ags1[i].st, S.evs[e].name))
                  IN [k \in DOMAIN ib |-> [eid |-> ib[k], by |-> ags1[i].id, at |-> S.step]]
        hNow   == Flat([i \in DOMAIN ags1 |-> hOf(i)])
        clean  == [i \in DOMAIN ags1 |-> [ags1[i] EXCEPT !.inbox = <<>>]]
        A      == ActLoop(1, [iter |-> clean, reg |-> clean, rebound |-> FALSE, nid |-> S.nid, tm |-> S.tm,
                              fired |-> <<>>, calls |-> <<"begin">>, gone |-> {}, born |-> {}], S)
        \* Model.end_round runs after every agent has acted and BEFORE the statistics of the step are collected: what it changes
        \* (planned here: the state / value of one agent) is part of the population the statistics describe
        endTodo == SelectSeq(S.plan, LAMBDA x : x.snd = ModelId /\ x.kind # "bsend" /\ x.k = S.step)
        regEnd == EndPlans(endTodo, A.reg)
        \* events the model itself sends from begin_round: enqueued after this step's events were distributed, so they are
        \* handled in the next step like the ones agents send while acting, and they precede those in the queue
        bplans == SelectSeq(S.plan, LAMBDA x : x.snd = ModelId /\ x.kind = "bsend" /\ x.k = S.step)
        fired  == [i \in DOMAIN bplans |-> bplans[i].eid] \o A.fired      \* begin_round first, then agent order, then plan order
        evs2   == [e \in DOMAIN S.evs |->
                     IF \E k \in DOMAIN fired : fired[k] = e
                     THEN [S.evs[e] EXCEPT !.at = S.step + 1,
                                           !.seq = S.nsent + (CHOOSE k \in DOMAIN fired : fired[k] = e)]
                     ELSE S.evs[e]]
        newQ   == [k \in DOMAIN fired |-> [eid |-> fired[k], rem |-> S.evs[fired[k]].ds]]
        delivered == {e \in {due[i] : i \in DOMAIN due} : S.evs[e].rcv \in Ids(S.agents)}
        estats == [nm \in Names |-> Cardinality({e \in delivered : S.evs[e].name = nm})]    \* DataCollector.event_statistics of this step
        dueAlive == {e \in {due[i] : i \in DOMAIN due} :
                        S.evs[e].rcv \in Ids(S.agents)
                        /\ Handles(S.agents[Pos(S.evs[e].rcv, S.agents)].st, S.evs[e].name)}
    IN [S |-> [agents |-> regEnd, mq |-> newQ \o later, step |-> S.step + 1, evs |-> evs2,
               nsent |-> S.nsent + Len(fired), plan |-> S.plan, nid |-> A.nid, tm |-> A.tm],
        handled |-> hNow, calls |-> A.calls \o <<"end">>, due |-> {due[i] : i \in DOMAIN due}, dueAlive |-> dueAlive,
        gone |-> A.gone, born |-> A.born, estats |-> estats]

Cur == [agents |-> agents, mq |-> mq, step |-> step, evs |-> evs, nsent |-> nsent, plan |-> plan, nid |-> nextId, tm |-> tmap]
HObs(h, E) == [i \in DOMAIN h |-> [eid |-> h[i].eid, by |-> h[i].by, at |-> E[h[i].eid].at, seq |-> E[h[i].eid].seq]]

(********************************* actions **********************************)
Log(rec) == hist' = IF L = 0 THEN hist ELSE Append(hist, rec)       \* L = 0: exhaustive configurations carry no observation log
Q1 == Queries(agents', tmap', nextId')

Create(ty, v) ==
    /\ "Create" \in Ops /\ nextId + 1 + Len(Spawn[ty]) <= MaxIds
    /\ agents' = agents \o Made(ty, v, nextId)
    /\ nextId' = nextId + 1 + Len(Spawn[ty])
    /\ tmap' = AddAll(tmap, Made(ty, v, nextId))
    /\ UNCHANGED <<mq, step, evs, nsent, plan, handled, alive, dt>>
    /\ Log([op |-> "Create", ty |-> ty, v |-> v, q |-> Q1])

CreateFail(ty) ==    \* create_agent whose initialize() raises: the id is used up, nothing else of the attempt remains
    /\ "CreateFail" \in Ops /\ Spawn[ty] = <<>> /\ nextId + 1 <= MaxIds
    /\ nextId' = nextId + 1
    /\ UNCHANGED <<agents, tmap, mq, step, evs, nsent, plan, handled, alive, dt>>
    /\ Log([op |-> "CreateFail", ty |-> ty, q |-> Q1])

CreateW(ty, v, w) ==    \* an agent that also has the numeric property w
    /\ "PropW" \in Ops /\ nextId + 1 + Len(Spawn[ty]) <= MaxIds
    /\ agents' = agents \o MadeW(ty, v, w, nextId)
    /\ nextId' = nextId + 1 + Len(Spawn[ty])
    /\ tmap' = AddAll(tmap, MadeW(ty, v, w, nextId))
    /\ UNCHANGED <<mq, step, evs, nsent, plan, handled, alive, dt>>
    /\ Log([op |-> "Create", ty |-> ty, v |-> v, w |-> w, q |-> Q1])

Delete(ids) ==       \* Model.delete_agents(ids); ids may contain dead ids
    /\ "Delete" \in Ops /\ ids # {}
    /\ agents' = Without(ids, agents)
    /\ tmap' = Rebuilt(ids, agents, tmap)
    /\ UNCHANGED <<nextId, mq, step, evs, nsent, plan, handled, alive, dt>>
    /\ Log([op |-> "Delete", ids |-> ids, q |-> Q1])

RECURSIVE Populate(_, _, _)
Populate(cfg, ags, nid) ==    \* create_agents for each spec entry, in order
    IF cfg = <<>> THEN [agents |-> ags, nid |-> nid]
    ELSE LET ty == Head(cfg)[1]  n == Head(cfg)[2]
         IN IF n = 0 THEN Populate(Tail(cfg), ags, nid)
            ELSE LET e == Head(cfg)  ww == IF Len(e) > 3 THEN e[4] ELSE NoW        \* an entry may give the agents the second property w
                 IN Populate(<< (IF Len(e) > 3 THEN <<ty, n - 1, e[3], e[4]>> ELSE <<ty, n - 1, e[3]>>) >> \o Tail(cfg), ags \o MadeW(ty, e[3], ww, nid), nid + 1 + Len(Spawn[ty]))
CfgSize(cfg) == SumSeq([i \in DOMAIN cfg |-> cfg[i][2] * (1 + Len(Spawn[cfg[i][1]]))])

Configure(cfg) ==    \* Model.configure_agents: drop every agent, then create; ids are not reused
    /\ "Configure" \in Ops /\ nextId + CfgSize(cfg) <= MaxIds
    /\ LET r == Populate(cfg, <<>>, nextId)
       IN /\ agents' = r.agents /\ nextId' = r.nid
          /\ tmap' = [ty \in Types |-> IdsOfType(ty, r.agents)]
    /\ UNCHANGED <<mq, step, evs, nsent, plan, handled, alive, dt>>
    /\ Log([op |-> "Configure", cfg |-> cfg, q |-> Q1])

Reset ==             \* Model.reset
    /\ "Reset" \in Ops /\ agents # <<>>
    /\ agents' = <<>> /\ tmap' = [ty \in Types |-> <<>>]
    /\ UNCHANGED <<nextId, mq, step, evs, nsent, plan, handled, alive, dt>>
    /\ Log([op |-> "Reset", q |-> Q1])

\* model.scheduler is replaced by a fresh scheduler between two steps (ScenarioManagerHybrid.instantiate_model does it for every
\* scenario it builds): the queue - the delayed events still counting down included - belongs to the model, so nothing changes
NewScheduler ==
    /\ "NewScheduler" \in Ops
    /\ UNCHANGED <<agents, nextId, tmap, mq, step, evs, nsent, plan, handled, alive, dt>>
    /\ Log([op |-> "NewScheduler"])

SetState(id, st) ==
    /\ "SetState" \in Ops /\ id \in Ids(agents) /\ agents[Pos(id, agents)].st # st
    /\ agents' = [agents EXCEPT ![Pos(id, agents)].st = st]
    /\ UNCHANGED <<nextId, tmap, mq, step, evs, nsent, plan, handled, alive, dt>>
    /\ Log([op |-> "SetState", id |-> id, st |-> st, q |-> Q1])

SetVal(id, v) ==
    /\ "SetVal" \in Ops /\ id \in Ids(agents) /\ agents[Pos(id, agents)].v # v
    /\ agents' = [agents EXCEPT ![Pos(id, agents)].v = v]
    /\ UNCHANGED <<nextId, tmap, mq, step, evs, nsent, plan, handled, alive, dt>>
    /\ Log([op |-> "SetVal", id |-> id, v |-> v, q |-> Q1])

NewEv(rcv, name, d, at, seq) == [rcv |-> rcv, name |-> name, ds |-> DSteps(d), at |-> at, seq |-> seq]

Send(rcv, name, d) ==    \* Model.enqueue_event from outside a step (rcv may be a dead or never-used id)
    /\ "Send" \in Ops /\ Len(evs) < MaxEvents
    /\ evs' = Append(evs, NewEv(rcv, name, d, step, nsent + 1))
    /\ nsent' = nsent + 1
    /\ mq' = Append(mq, [eid |-> Len(evs) + 1, rem |-> DSteps(d)])
    /\ alive' = alive @@ ((Len(evs) + 1) :> "pending")
    /\ UNCHANGED <<agents, nextId, tmap, step, plan, handled, dt>>
    /\ Log([op |-> "Send", eid |-> Len(evs) + 1, rcv |-> rcv, name |-> name, d |-> d])

Plan(snd, rcv, name, d, k) ==   \* agent snd will send the event from inside its act() in step index k
    /\ "Plan" \in Ops /\ Len(evs) < MaxEvents /\ snd \in Ids(agents) /\ k >= step
    /\ evs' = Append(evs, NewEv(rcv, name, d, None, 0))
    /\ plan' = Append(plan, [snd |-> snd, kind |-> "send", eid |-> Len(evs) + 1, k |-> k, arg |-> None])
    /\ alive' = alive @@ ((Len(evs) + 1) :> "pending")
    /\ UNCHANGED <<agents, nextId, tmap, mq, step, nsent, handled, dt>>
    /\ Log([op |-> "Plan", eid |-> Len(evs) + 1, snd |-> snd, rcv |-> rcv, name |-> name, d |-> d, k |-> k])

PlanBegin(rcv, name, d, k) ==   \* Model.begin_round will send the event in step index k
    /\ "PlanBegin" \in Ops /\ Len(evs) < MaxEvents /\ k >= step
    /\ evs' = Append(evs, NewEv(rcv, name, d, None, 0))
    /\ plan' = Append(plan, [snd |-> ModelId, kind |-> "bsend", eid |-> Len(evs) + 1, k |-> k, arg |-> None])
    /\ alive' = alive @@ ((Len(evs) + 1) :> "pending")
    /\ UNCHANGED <<agents, nextId, tmap, mq, step, nsent, handled, dt>>
    /\ Log([op |-> "PlanBegin", eid |-> Len(evs) + 1, rcv |-> rcv, name |-> name, d |-> d, k |-> k])

PlanDel(snd, victim, k) ==      \* agent snd will call model.delete_agent(victim) from inside its act() in step k
    /\ "PlanDel" \in Ops /\ snd \in Ids(agents) /\ k >= step /\ Len(plan) < MaxPlans
    /\ plan' = Append(plan, [snd |-> snd, kind |-> "del", eid |-> 0, k |-> k, arg |-> victim])
    /\ UNCHANGED <<agents, nextId, tmap, mq, step, evs, nsent, handled, alive, dt>>
    /\ Log([op |-> "PlanDel", snd |-> snd, victim |-> victim, k |-> k])

PlanNew(snd, ty, k) ==          \* agent snd will call model.create_agent(ty) from inside its act() in step k
    /\ "PlanNew" \in Ops /\ snd \in Ids(agents) /\ k >= step /\ Len(plan) < MaxPlans
    /\ plan' = Append(plan, [snd |-> snd, kind |-> "new", eid |-> 0, k |-> k, arg |-> ty])
    /\ UNCHANGED <<agents, nextId, tmap, mq, step, evs, nsent, handled, alive, dt>>
    /\ Log([op |-> "PlanNew", snd |-> snd, ty |-> ty, k |-> k])

PlanSet(snd, kind, x, k) ==     \* agent snd will set its own state / value from inside its act() in step k
    /\ "PlanSet" \in Ops /\ snd \in Ids(agents) /\ k >= step /\ Len(plan) < MaxPlans
    /\ plan' = Append(plan, [snd |-> snd, kind |-> kind, eid |-> 0, k |-> k, arg |-> x])
    /\ UNCHANGED <<agents, nextId, tmap, mq, step, evs, nsent, handled, alive, dt>>
    /\ Log([op |-> "PlanSet", snd |-> snd, kind |-> kind, x |-> x, k |-> k])

PlanEnd(kind, target, x, k) ==  \* Model.end_round will set the state / value of agent target in step k
    /\ "PlanEnd" \in Ops /\ target \in Ids(agents) /\ k >= step /\ Len(plan) < MaxPlans
    /\ plan' = Append(plan, [snd |-> ModelId, kind |-> kind, eid |-> target, k |-> k, arg |-> x])
    /\ UNCHANGED <<agents, nextId, tmap, mq, step, evs, nsent, handled, alive, dt>>
    /\ Log([op |-> "PlanEnd", kind |-> kind, target |-> target, x |-> x, k |-> k])

Apply(r) ==
    /\ agents' = r.S.agents /\ mq' = r.S.mq /\ step' = r.S.step /\ evs' = r.S.evs
    /\ nsent' = r.S.nsent /\ plan' = r.S.plan /\ nextId' = r.S.nid /\ tmap' = r.S.tm
    /\ handled' = handled \o r.handled
    /\ alive' = [e \in DOMAIN alive |-> IF e \in r.due THEN (IF e \in r.dueAlive THEN "yes" ELSE "no") ELSE alive[e]]

RunStep ==           \* Model.run_step(step): one externally driven scheduler step at time step*dt
    /\ "RunStep" \in Ops /\ step < MaxSteps
    /\ LET r == StepF(Cur)
       IN /\ Apply(r)
          /\ Log([op |-> "RunStep", k |-> step, t100 |-> step * dt, handled |-> HObs(r.handled, r.S.evs),
                  calls |-> r.calls \o <<"collect">>, stats |-> Stats(r.S.agents), gone |-> r.gone, born |-> r.born, estats |-> r.estats,
                  q |-> Queries(r.S.agents, r.S.tm, r.S.nid)])
    /\ UNCHANGED dt

\* whole run: rounds start..stop, Unit/dt steps per round, time = round + step*dt
\* (times, dt and delays are integers in 1/Unit time units; Unit is 100 unless a configuration overrides the definition, e.g. 1000 for dt = 0.125)
RECURSIVE RunLoop(_, _, _, _, _, _, _)
RunLoop(S, rnd, s, stop, collect, d, acc) ==
    \* acc = [handled, calls (Seq of [t100, calls]), stats (Seq of [t100, stats]), due, dueAlive, gone, born]
    IF rnd > stop THEN [S |-> S, acc |-> acc]
    ELSE LET r == StepF(S)
             t == rnd * Unit + s * d
             last == rnd = stop /\ s = (Unit \div d) - 1
             doCollect == collect \/ last
             acc2 == [handled |-> acc.handled \o r.handled,
                      calls |-> Append(acc.calls, [t100 |-> t, gone |-> r.gone, born |-> r.born,
                                                   calls |-> r.calls \o (IF doCollect THEN <<"collect">> ELSE <<>>)]),
                      stats |-> IF doCollect THEN Append(acc.stats, [t100 |-> t, stats |-> Stats(r.S.agents)]) ELSE acc.stats,
                      due |-> acc.due \cup r.due, dueAlive |-> acc.dueAlive \cup r.dueAlive]
         IN IF s + 1 < Unit \div d THEN RunLoop(r.S, rnd, s + 1, stop, collect, d, acc2)
            ELSE RunLoop(r.S, rnd + 1, 0, stop, collect, d, acc2)

Run(spec) ==         \* Model.run_specs(start, stop, dt); Model.run(collect_data): spec = <<start, stop, collect_data, dt>>
    /\ "Run" \in Ops /\ Unit % spec[4] = 0
    /\ LET start == spec[1]  stop == spec[2]  collect == spec[3]  d == spec[4]
           n == (stop - start + 1) * (Unit \div d)
       IN /\ start <= stop /\ step + n <= MaxSteps
          /\ (d # dt => mq = <<>>)      \* delays in flight are counted in steps of the dt they were sent under
          /\ dt' = d
          /\ LET res == RunLoop(Cur, start, 0, stop, collect, d,
                                [handled |-> <<>>, calls |-> <<>>, stats |-> <<>>, due |-> {}, dueAlive |-> {}])
             IN /\ Apply([S |-> res.S, handled |-> res.acc.handled, due |-> res.acc.due, dueAlive |-> res.acc.dueAlive])
                /\ Log([op |-> "Run", start |-> start, stop |-> stop, collect |-> collect, dt100 |-> d, k0 |-> step,
                        handled |-> HObs(res.acc.handled, res.S.evs), rounds |-> res.acc.calls, stats |-> res.acc.stats,
                        q |-> Queries(res.S.agents, res.S.tm, res.S.nid)])

Init ==
    /\ agents = <<>> /\ nextId = 0 /\ tmap = [ty \in Types |-> <<>>]
    /\ mq = <<>> /\ step = 0 /\ evs = <<>> /\ nsent = 0 /\ plan = <<>> /\ handled = <<>>
    /\ alive = <<>> /\ hist = <<>> /\ dt = Dt100

DoCreate    == \E ty \in Types : CreateFail(ty) \/ (\E v \in Vals : Create(ty, v) \/ (\E w \in Vals : CreateW(ty, v, w)))
DoDelete    == \E ids \in (SUBSET (0..(nextId - 1))) : Cardinality(ids) \in {1, 2} /\ Delete(ids)
DoConfigure == \E c \in Configs : Configure(c)
DoSetState  == \E id \in 0..(nextId - 1), st \in States : SetState(id, st)
DoSetVal    == \E id \in 0..(nextId - 1), v \in Vals : SetVal(id, v)
DoSend      == \E rcv \in 0..nextId, n \in Names, d \in Delays : Send(rcv, n, d)
DoPlan      == \E snd \in 0..(nextId - 1), rcv \in 0..nextId, n \in Names, d \in Delays, k \in step..(step + PlanAhead) : Plan(snd, rcv, n, d, k)
DoPlanBegin == \E rcv \in 0..nextId, n \in Names, d \in Delays, k \in step..(step + PlanAhead) : PlanBegin(rcv, n, d, k)
DoPlanDel   == \E snd \in 0..(nextId - 1), victim \in 0..(nextId - 1), k \in step..(step + PlanAhead) : PlanDel(snd, victim, k)
DoPlanNew   == \E snd \in 0..(nextId - 1), ty \in Types, k \in step..(step + PlanAhead) : PlanNew(snd, ty, k)
DoPlanSet   == \E snd \in 0..(nextId - 1), k \in step..(step + PlanAhead) :
                  (\E st \in States : PlanSet(snd, "st", st, k)) \/ (\E v \in Vals : PlanSet(snd, "val", v, k))
                  \/ ("PropW" \in Ops /\ \E v \in Vals : PlanSet(snd, "w", v, k))
DoPlanEnd   == \E target \in 0..(nextId - 1), k \in step..(step + PlanAhead) :
                  (\E st \in States : PlanEnd("est", target, st, k)) \/ (\E v \in Vals : PlanEnd("eval", target, v, k))
DoRun       == \E rs \in RunSpecs : Run(rs)

Next == DoCreate \/ DoDelete \/ DoConfigure \/ Reset \/ DoSetState \/ DoSetVal \/ DoSend \/ DoPlan
        \/ NewScheduler \/ DoPlanBegin \/ DoPlanDel \/ DoPlanNew \/ DoPlanSet \/ DoPlanEnd \/ RunStep \/ DoRun

Spec == Init /\ [][Next]_vars

(******************************** properties ********************************)
\* ---- C14 registry -------------------------------------------------------
UniqueIds    == \A i, j \in DOMAIN agents : i # j => agents[i].id # agents[j].id
IdsBelowNext == \A i \in DOMAIN agents : agents[i].id < nextId
NeverReused  == [][nextId' >= nextId /\ \A i \in DOMAIN agents' : (agents'[i].id \notin Ids(agents) => agents'[i].id >= nextId)]_vars
TypeMapExact == \A ty \in Types : tmap[ty] = IdsOfType(ty, agents)
CountsAgree  == \A ty \in Types :
                   /\ Len(tmap[ty]) = Cardinality({i \in DOMAIN agents : agents[i].ty = ty})
                   /\ \A st \in States : CountPerState(ty, st, agents, tmap) = Cardinality(Members(ty, st, agents))
\* ---- C13 statistics -----------------------------------------------------
FoldOK == FoldStats(agents) = Stats(agents)
\* ---- C11 events ---------------------------------------------------------
AtMostOnce == \A i, j \in DOMAIN handled : i # j => handled[i].eid # handled[j].eid
RightAgent == \A i \in DOMAIN handled : handled[i].by = evs[handled[i].eid].rcv
RightStep  == \A i \in DOMAIN handled : handled[i].at = evs[handled[i].eid].at + evs[handled[i].eid].ds
InOrder    == \A i, j \in DOMAIN handled :
                 (i < j /\ handled[i].by = handled[j].by /\ handled[i].at = handled[j].at
                  /\ evs[handled[i].eid].at = evs[handled[j].eid].at)
                 => evs[handled[i].eid].seq < evs[handled[j].eid].seq
ExactlyOnce == \A e \in DOMAIN alive :
                 /\ alive[e] = "yes" => \E i \in DOMAIN handled : handled[i].eid = e
                 /\ alive[e] = "no"  => ~ \E i \in DOMAIN handled : handled[i].eid = e
DueInTime  == \A e \in DOMAIN evs : (evs[e].at # None /\ step > evs[e].at + evs[e].ds) => alive[e] # "pending"
\* ---- C12 run loop (sanity of the step function; the substance is in the replay) ----
QueueClean == \A i \in DOMAIN agents : agents[i].inbox = <<>>

(****************************** configurations ******************************)
View   == core                                    \* registry / statistics configurations
ViewEv == <<core, handled, alive>>               \* event configurations keep the history variables
Bound  == Len(hist) <= L
Emit   == Len(hist) = L => PrintT(ToJson(hist))
=============================================================================
