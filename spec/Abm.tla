------------------------------- MODULE Abm -------------------------------
(***************************************************************************)
(* Agent-based engine of bptk_py: agent registry (create / delete /        *)
(* configure / reset / state changes), event queues with delayed events,   *)
(* the scheduler step and the run loop, and the data collector.            *)
(*                                                                         *)
(* One action per public operation of BPTK_Py.Model; the scheduler step is *)
(* the pure function StepF so that a whole run (Run) is its iteration.     *)
(* `hist' is the observation log used for conformance (spec -> code        *)
(* replay and code -> spec trace validation); it is hidden by VIEW in the  *)
(* exhaustive configurations.                                              *)
(* Properties: C11 (events), C12 (run loop), C13 (statistics), C14         *)
(* (registry).                                                             *)
(***************************************************************************)
EXTENDS Integers, Sequences, FiniteSets, TLC, Json

CONSTANTS Types,      \* agent type names
          Vals,       \* menu of values of the numeric agent property "v" (integers; value = v/2)
          Configs,    \* menu of configure_agents specs: sequences of <<type, count>>
          MaxIds,     \* bound on the number of ids ever handed out
          MaxEvents,  \* bound on the number of events ever created
          MaxSteps,   \* bound on scheduler steps
          Delays,     \* menu of event delays, in 1/100 time units
          Dt100,      \* dt in 1/100 time units
          RunSpecs,   \* menu of <<start, stop, collect_data>> for whole runs
          Ops,        \* names of the enabled operations
          L           \* bound on Len(hist) in generator configurations

VARIABLES agents,   \* Seq of [id, ty, st, v, inbox] in creation order (Model.agents)
          nextId,   \* Model.next_agent_id
          tmap,     \* Model.agent_type_map : type -> Seq of ids
          mq,       \* Model.events (+ Scheduler.delayed_events between steps): Seq of [eid, rem]
          step,     \* number of scheduler steps executed so far
          evs,      \* every event ever created: Seq of [rcv, name, ds, at, seq]; eid = index
          nsent,    \* number of events enqueued so far (send order)
          plan,     \* Seq of [snd, eid, k]: agent snd sends event eid from its act() in step index k
          handled,  \* history: Seq of [eid, by, at]
          alive,    \* history: eid -> was its receiver alive (and handling the name) when it fell due
          hist      \* observation log

core == <<agents, nextId, tmap, mq, step, evs, nsent, plan>>
vars == <<agents, nextId, tmap, mq, step, evs, nsent, plan, handled, alive, hist>>

States == {"active", "idle"}
Names  == {"ping", "pong"}
\* handler tables of the reference agent class: "active" handles both names, "idle" only "ping"
Handles(st, name) == st = "active" \/ name = "ping"

None == 0 - 1
Min(S) == CHOOSE x \in S : \A y \in S : x <= y
Max(S) == CHOOSE x \in S : \A y \in S : x >= y
DefaultV == Min(Vals)
DSteps(d) == (d + Dt100 - 1) \div Dt100          \* ceil(delay / dt)

Ids(ags) == {ags[i].id : i \in DOMAIN ags}
Pos(id, ags) == CHOOSE i \in DOMAIN ags : ags[i].id = id
IdsOfType(ty, ags) == LET s == SelectSeq(ags, LAMBDA a : a.ty = ty) IN [i \in DOMAIN s |-> s[i].id]

RECURSIVE SumSeq(_)
SumSeq(s) == IF s = <<>> THEN 0 ELSE Head(s) + SumSeq(Tail(s))
RECURSIVE Flat(_)
Flat(ss) == IF ss = <<>> THEN <<>> ELSE Head(ss) \o Flat(Tail(ss))

(***************************** queries (C14) *******************************)
Lookup(id, ags) == IF id \in Ids(ags) THEN [ty |-> ags[Pos(id, ags)].ty, st |-> ags[Pos(id, ags)].st]
                   ELSE [ty |-> "none", st |-> "none"]
CountPerState(ty, st, ags, tm) ==
    Cardinality({k \in DOMAIN tm[ty] : tm[ty][k] \in Ids(ags) /\ ags[Pos(tm[ty][k], ags)].st = st})
NextAgent(ty, st, ags) ==
    LET s == SelectSeq(ags, LAMBDA a : a.ty = ty /\ a.st = st) IN IF s = <<>> THEN None ELSE s[1].id
Queries(ags, tm, nid) ==
    [ids  |-> [ty \in Types |-> tm[ty]],
     cnt  |-> [ty \in Types |-> Len(tm[ty])],
     cps  |-> [ty \in Types |-> [st \in States |-> CountPerState(ty, st, ags, tm)]],
     nxt  |-> [ty \in Types |-> [st \in States |-> NextAgent(ty, st, ags)]],
     look |-> [k \in 1..(nid + 1) |-> Lookup(k - 1, ags)],     \* ids 0..nid (nid itself is never alive)
     nid  |-> nid]

(**************************** statistics (C13) *****************************)
\* declarative definition: aggregates over exactly the agents of the type in the state
Members(ty, st, ags) == {i \in DOMAIN ags : ags[i].ty = ty /\ ags[i].st = st}
RECURSIVE SumSet(_, _)
SumSet(S, ags) == IF S = {} THEN 0 ELSE LET i == CHOOSE x \in S : TRUE IN ags[i].v + SumSet(S \ {i}, ags)
StatOf(ty, st, ags) ==
    LET M == Members(ty, st, ags) IN
    IF M = {} THEN [count |-> 0, total |-> 0, min |-> 0, max |-> 0]
    ELSE [count |-> Cardinality(M), total |-> SumSet(M, ags),
          min |-> Min({ags[i].v : i \in M}), max |-> Max({ags[i].v : i \in M})]
Stats(ags) == [ty \in Types |-> [st \in States |-> StatOf(ty, st, ags)]]
\* the incremental algorithm of DataCollector.collect_agent_statistics, as a fold over the agent list
RECURSIVE Fold(_, _, _)
Fold(ags, i, acc) ==
    IF i > Len(ags) THEN acc
    ELSE LET a == ags[i]  old == acc[a.ty][a.st]
             new == IF old.count = 0
                    THEN [count |-> 1, total |-> a.v, min |-> a.v, max |-> a.v]
                    ELSE [count |-> old.count + 1, total |-> old.total + a.v,
                          min |-> IF a.v < old.min THEN a.v ELSE old.min,
                          max |-> IF a.v > old.max THEN a.v ELSE old.max]
         IN Fold(ags, i + 1, [acc EXCEPT ![a.ty][a.st] = new])
FoldStats(ags) == Fold(ags, 1, [ty \in Types |-> [st \in States |-> [count |-> 0, total |-> 0, min |-> 0, max |-> 0]]])

(************************** scheduler step (C11, C12) **********************)
RECURSIVE Deliver(_, _)
Deliver(due, ags) ==     \* due: Seq of eids in queue order; an event for a dead id is dropped
    IF due = <<>> THEN ags
    ELSE LET e == Head(due)  r == evs[e].rcv
         IN IF r \in Ids(ags) THEN Deliver(Tail(due), [ags EXCEPT ![Pos(r, ags)].inbox = Append(@, e)])
            ELSE Deliver(Tail(due), ags)

\* S = [agents, mq, step, evs, nsent, plan]; returns the new S plus what the step did
StepF(S) ==
    LET dueQ   == SelectSeq(S.mq, LAMBDA q : q.rem = 0)
        due    == [i \in DOMAIN dueQ |-> dueQ[i].eid]
        lateQ  == SelectSeq(S.mq, LAMBDA q : q.rem > 0)
        later  == [i \in DOMAIN lateQ |-> [lateQ[i] EXCEPT !.rem = @ - 1]]
        ags1   == Deliver(due, S.agents)
        hOf(i) == LET ib == SelectSeq(ags1[i].inbox, LAMBDA e : Handles(ags1[i].st, S.evs[e].name))
                  IN [k \in DOMAIN ib |-> [eid |-> ib[k], by |-> ags1[i].id, at |-> S.step]]
        hNow   == Flat([i \in DOMAIN ags1 |-> hOf(i)])
        fOf(i) == LET p == SelectSeq(S.plan, LAMBDA x : x.snd = ags1[i].id /\ x.k = S.step)
                  IN [k \in DOMAIN p |-> p[k].eid]
        fired  == Flat([i \in DOMAIN ags1 |-> fOf(i)])           \* in agent order, then plan order
        evs2   == [e \in DOMAIN S.evs |->
                     IF \E k \in DOMAIN fired : fired[k] = e
                     THEN [S.evs[e] EXCEPT !.at = S.step + 1,
                                           !.seq = S.nsent + (CHOOSE k \in DOMAIN fired : fired[k] = e)]
                     ELSE S.evs[e]]
        newQ   == [k \in DOMAIN fired |-> [eid |-> fired[k], rem |-> S.evs[fired[k]].ds]]
        calls  == <<"begin">> \o Flat([i \in DOMAIN ags1 |-> <<"h" \o ToString(ags1[i].id), "a" \o ToString(ags1[i].id)>>]) \o <<"end">>
        dueAlive == {e \in {due[i] : i \in DOMAIN due} :
                        S.evs[e].rcv \in Ids(S.agents)
                        /\ Handles(S.agents[Pos(S.evs[e].rcv, S.agents)].st, S.evs[e].name)}
    IN [S |-> [agents |-> [i \in DOMAIN ags1 |-> [ags1[i] EXCEPT !.inbox = <<>>]],
               mq |-> newQ \o later, step |-> S.step + 1, evs |-> evs2,
               nsent |-> S.nsent + Len(fired), plan |-> S.plan],
        handled |-> hNow, calls |-> calls, due |-> {due[i] : i \in DOMAIN due}, dueAlive |-> dueAlive]

Cur == [agents |-> agents, mq |-> mq, step |-> step, evs |-> evs, nsent |-> nsent, plan |-> plan]
HObs(h, E) == [i \in DOMAIN h |-> [eid |-> h[i].eid, by |-> h[i].by, at |-> E[h[i].eid].at, seq |-> E[h[i].eid].seq]]

(********************************* actions **********************************)
Log(rec) == hist' = Append(hist, rec)
Q1 == Queries(agents', tmap', nextId')

Create(ty, v) ==
    /\ "Create" \in Ops /\ nextId < MaxIds
    /\ agents' = Append(agents, [id |-> nextId, ty |-> ty, st |-> "active", v |-> v, inbox |-> <<>>])
    /\ nextId' = nextId + 1
    /\ tmap' = [tmap EXCEPT ![ty] = Append(@, nextId)]
    /\ UNCHANGED <<mq, step, evs, nsent, plan, handled, alive>>
    /\ Log([op |-> "Create", ty |-> ty, v |-> v, q |-> Q1])

Delete(ids) ==       \* Model.delete_agents(ids); ids may contain dead ids
    /\ "Delete" \in Ops /\ ids # {}
    /\ agents' = SelectSeq(agents, LAMBDA a : a.id \notin ids)
    /\ tmap' = [ty \in Types |-> IdsOfType(ty, agents')]
    /\ UNCHANGED <<nextId, mq, step, evs, nsent, plan, handled, alive>>
    /\ Log([op |-> "Delete", ids |-> ids, q |-> Q1])

RECURSIVE Populate(_, _, _)
Populate(cfg, ags, nid) ==    \* create_agents for each spec entry, in order
    IF cfg = <<>> THEN [agents |-> ags, nid |-> nid]
    ELSE LET ty == Head(cfg)[1]  n == Head(cfg)[2]
             new == [k \in 1..n |-> [id |-> nid + k - 1, ty |-> ty, st |-> "active", v |-> DefaultV, inbox |-> <<>>]]
         IN Populate(Tail(cfg), ags \o new, nid + n)
CfgSize(cfg) == SumSeq([i \in DOMAIN cfg |-> cfg[i][2]])

Configure(cfg) ==    \* Model.configure_agents: drop every agent, then create; ids are not reused
    /\ "Configure" \in Ops /\ nextId + CfgSize(cfg) <= MaxIds
    /\ LET r == Populate(cfg, <<>>, nextId)
       IN /\ agents' = r.agents /\ nextId' = r.nid
          /\ tmap' = [ty \in Types |-> IdsOfType(ty, r.agents)]
    /\ UNCHANGED <<mq, step, evs, nsent, plan, handled, alive>>
    /\ Log([op |-> "Configure", cfg |-> cfg, q |-> Q1])

Reset ==             \* Model.reset
    /\ "Reset" \in Ops /\ agents # <<>>
    /\ agents' = <<>> /\ tmap' = [ty \in Types |-> <<>>]
    /\ UNCHANGED <<nextId, mq, step, evs, nsent, plan, handled, alive>>
    /\ Log([op |-> "Reset", q |-> Q1])

SetState(id, st) ==
    /\ "SetState" \in Ops /\ id \in Ids(agents) /\ agents[Pos(id, agents)].st # st
    /\ agents' = [agents EXCEPT ![Pos(id, agents)].st = st]
    /\ UNCHANGED <<nextId, tmap, mq, step, evs, nsent, plan, handled, alive>>
    /\ Log([op |-> "SetState", id |-> id, st |-> st, q |-> Q1])

SetVal(id, v) ==
    /\ "SetVal" \in Ops /\ id \in Ids(agents) /\ agents[Pos(id, agents)].v # v
    /\ agents' = [agents EXCEPT ![Pos(id, agents)].v = v]
    /\ UNCHANGED <<nextId, tmap, mq, step, evs, nsent, plan, handled, alive>>
    /\ Log([op |-> "SetVal", id |-> id, v |-> v, q |-> Q1])

Send(rcv, name, d) ==    \* Model.enqueue_event from outside a step (rcv may be a dead or never-used id)
    /\ "Send" \in Ops /\ Len(evs) < MaxEvents
    /\ evs' = Append(evs, [rcv |-> rcv, name |-> name, ds |-> DSteps(d), at |-> step, seq |-> nsent + 1])
    /\ nsent' = nsent + 1
    /\ mq' = Append(mq, [eid |-> Len(evs) + 1, rem |-> DSteps(d)])
    /\ alive' = alive @@ ((Len(evs) + 1) :> "pending")
    /\ UNCHANGED <<agents, nextId, tmap, step, plan, handled>>
    /\ Log([op |-> "Send", eid |-> Len(evs) + 1, rcv |-> rcv, name |-> name, d |-> d])

Plan(snd, rcv, name, d, k) ==   \* agent snd will send the event from inside its act() in step index k
    /\ "Plan" \in Ops /\ Len(evs) < MaxEvents /\ snd \in Ids(agents) /\ k >= step
    /\ evs' = Append(evs, [rcv |-> rcv, name |-> name, ds |-> DSteps(d), at |-> None, seq |-> 0])
    /\ plan' = Append(plan, [snd |-> snd, eid |-> Len(evs) + 1, k |-> k])
    /\ alive' = alive @@ ((Len(evs) + 1) :> "pending")
    /\ UNCHANGED <<agents, nextId, tmap, mq, step, nsent, handled>>
    /\ Log([op |-> "Plan", eid |-> Len(evs) + 1, snd |-> snd, rcv |-> rcv, name |-> name, d |-> d, k |-> k])

Apply(r) ==
    /\ agents' = r.S.agents /\ mq' = r.S.mq /\ step' = r.S.step /\ evs' = r.S.evs
    /\ nsent' = r.S.nsent /\ plan' = r.S.plan
    /\ handled' = handled \o r.handled
    /\ alive' = [e \in DOMAIN alive |-> IF e \in r.due THEN (IF e \in r.dueAlive THEN "yes" ELSE "no") ELSE alive[e]]

RunStep ==           \* Model.run_step(step): one externally driven scheduler step at time step*dt
    /\ "RunStep" \in Ops /\ step < MaxSteps
    /\ LET r == StepF(Cur)
       IN /\ Apply(r)
          /\ Log([op |-> "RunStep", k |-> step, t100 |-> step * Dt100, handled |-> HObs(r.handled, r.S.evs),
                  calls |-> r.calls \o <<"collect">>, stats |-> Stats(r.S.agents), q |-> Queries(r.S.agents, tmap, nextId)])
    /\ UNCHANGED <<nextId, tmap>>

\* whole run: rounds start..stop, 100/Dt100 steps per round, time = round + step*dt
RECURSIVE RunLoop(_, _, _, _, _, _)
RunLoop(S, rnd, s, stop, collect, acc) ==
    \* acc = [handled, calls (Seq of [t100, calls]), stats (Seq of [t100, stats]), due, dueAlive]
    IF rnd > stop THEN [S |-> S, acc |-> acc]
    ELSE LET r == StepF(S)
             t == rnd * 100 + s * Dt100
             last == rnd = stop /\ s = (100 \div Dt100) - 1
             doCollect == collect \/ last
             acc2 == [handled |-> acc.handled \o r.handled,
                      calls |-> Append(acc.calls, [t100 |-> t, calls |-> r.calls \o (IF doCollect THEN <<"collect">> ELSE <<>>)]),
                      stats |-> IF doCollect THEN Append(acc.stats, [t100 |-> t, stats |-> Stats(r.S.agents)]) ELSE acc.stats,
                      due |-> acc.due \cup r.due, dueAlive |-> acc.dueAlive \cup r.dueAlive]
         IN IF s + 1 < 100 \div Dt100 THEN RunLoop(r.S, rnd, s + 1, stop, collect, acc2)
            ELSE RunLoop(r.S, rnd + 1, 0, stop, collect, acc2)

Run(spec) ==         \* Model.run(): spec = <<start, stop, collect_data>>
    /\ "Run" \in Ops /\ 100 % Dt100 = 0
    /\ LET start == spec[1]  stop == spec[2]  collect == spec[3]
           n == (stop - start + 1) * (100 \div Dt100)
       IN /\ start <= stop /\ step + n <= MaxSteps
          /\ LET res == RunLoop(Cur, start, 0, stop, collect,
                                [handled |-> <<>>, calls |-> <<>>, stats |-> <<>>, due |-> {}, dueAlive |-> {}])
             IN /\ Apply([S |-> res.S, handled |-> res.acc.handled, due |-> res.acc.due, dueAlive |-> res.acc.dueAlive])
                /\ Log([op |-> "Run", start |-> start, stop |-> stop, collect |-> collect, k0 |-> step,
                        handled |-> HObs(res.acc.handled, res.S.evs), rounds |-> res.acc.calls, stats |-> res.acc.stats,
                        q |-> Queries(res.S.agents, tmap, nextId)])
    /\ UNCHANGED <<nextId, tmap>>

Init ==
    /\ agents = <<>> /\ nextId = 0 /\ tmap = [ty \in Types |-> <<>>]
    /\ mq = <<>> /\ step = 0 /\ evs = <<>> /\ nsent = 0 /\ plan = <<>> /\ handled = <<>>
    /\ alive = <<>> /\ hist = <<>>

DoCreate    == \E ty \in Types, v \in Vals : Create(ty, v)
DoDelete    == \E ids \in (SUBSET (0..(nextId - 1))) : Cardinality(ids) \in {1, 2} /\ Delete(ids)
DoConfigure == \E c \in Configs : Configure(c)
DoSetState  == \E id \in 0..(nextId - 1), st \in States : SetState(id, st)
DoSetVal    == \E id \in 0..(nextId - 1), v \in Vals : SetVal(id, v)
DoSend      == \E rcv \in 0..nextId, n \in Names, d \in Delays : Send(rcv, n, d)
DoPlan      == \E snd \in 0..(nextId - 1), rcv \in 0..nextId, n \in Names, d \in Delays, k \in step..(step + 1) : Plan(snd, rcv, n, d, k)
DoRun       == \E rs \in RunSpecs : Run(rs)

Next == DoCreate \/ DoDelete \/ DoConfigure \/ Reset \/ DoSetState \/ DoSetVal \/ DoSend \/ DoPlan \/ RunStep \/ DoRun

Spec == Init /\ [][Next]_vars

(******************************** properties ********************************)
\* ---- C14 registry -------------------------------------------------------
UniqueIds    == \A i, j \in DOMAIN agents : i # j => agents[i].id # agents[j].id
IdsBelowNext == \A i \in DOMAIN agents : agents[i].id < nextId
NeverReused  == [][nextId' >= nextId /\ \A i \in DOMAIN agents' : (agents'[i].id \notin Ids(agents) => agents'[i].id >= nextId)]_vars
TypeMapExact == \A ty \in Types : tmap[ty] = IdsOfType(ty, agents)
CountsAgree  == \A ty \in Types :
                   /\ Len(tmap[ty]) = Cardinality({i \in DOMAIN agents : agents[i].ty = ty})
                   /\ \A st \in States : CountPerState(ty, st, agents, tmap) = Cardinality(Members(ty, st, agents))
\* ---- C13 statistics -----------------------------------------------------
FoldOK == FoldStats(agents) = Stats(agents)
\* ---- C11 events ---------------------------------------------------------
AtMostOnce == \A i, j \in DOMAIN handled : i # j => handled[i].eid # handled[j].eid
RightAgent == \A i \in DOMAIN handled : handled[i].by = evs[handled[i].eid].rcv
RightStep  == \A i \in DOMAIN handled : handled[i].at = evs[handled[i].eid].at + evs[handled[i].eid].ds
InOrder    == \A i, j \in DOMAIN handled :
                 (i < j /\ handled[i].by = handled[j].by /\ handled[i].at = handled[j].at
                  /\ evs[handled[i].eid].at = evs[handled[j].eid].at)
                 => evs[handled[i].eid].seq < evs[handled[j].eid].seq
ExactlyOnce == \A e \in DOMAIN alive :
                 /\ alive[e] = "yes" => \E i \in DOMAIN handled : handled[i].eid = e
                 /\ alive[e] = "no"  => ~ \E i \in DOMAIN handled : handled[i].eid = e
DueInTime  == \A e \in DOMAIN evs : (evs[e].at # None /\ step > evs[e].at + evs[e].ds) => alive[e] # "pending"
\* ---- C12 run loop (sanity of the step function; the substance is in the replay) ----
QueueClean == \A i \in DOMAIN agents : agents[i].inbox = <<>>

(****************************** configurations ******************************)
View   == core                                    \* registry / statistics configurations
ViewEv == <<core, handled, alive>>               \* event configurations keep the history variables
Bound  == Len(hist) <= L
Emit   == Len(hist) = L => PrintT(ToJson(hist))
=============================================================================
