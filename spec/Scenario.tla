----------------------------- MODULE Scenario -----------------------------
(***************************************************************************)
(* The scenario layer of bptk_py (C06, C07, and the settings side of C09): *)
(* one base model object, scenario managers registered from it, scenarios  *)
(* with constants / points / run specs (own, inherited from the manager's   *)
(* base values, or supplied later through session settings, step settings,  *)
(* the REST /run settings or set_property_value), batch runs, one stepwise  *)
(* session, cache resets.                                                   *)
(*                                                                         *)
(* Reference model: constant k (base value 1), graphical function tab      *)
(* (base table "A"), stock s with s' = k + lookup(TIME, tab), run spec      *)
(* "r0".  A *result* is abstracted to the triple <<k, table, runspec>> the  *)
(* scenario is simulated with; the harness turns a triple into numbers by   *)
(* building a fresh model carrying exactly these values, which is how the   *)
(* property itself is phrased.                                              *)
(*                                                                         *)
(* Object identity is explicit: tobj[m][sc] names the points dictionary a   *)
(* scenario's model uses and dict[id] its content, so that "the clone       *)
(* shares the base model's dictionary" (deviation D06) is a state.          *)
(***************************************************************************)
EXTENDS Integers, Sequences, FiniteSets, TLC, Json

CONSTANTS Mgrs, Scs,       \* manager and scenario names
          KVals,           \* values for the constant k (0 = not given)
          Tabs,            \* table ids ("" = not given)
          RSs,             \* run-spec ids ("" = not given)
          StepOnlyListed,  \* TRUE: step settings are only used on scenarios that list the constant (KF-C07-1 excluded)
          Ops, Dev, L

VARIABLES mgr,     \* m -> Null | [bk, bt]                         manager with its base constant / base points
          scen,    \* m -> sc -> Null | [k, tab, rs]               the scenario's own (persistent) settings; 0 / "" = not listed
          mk,      \* m -> sc -> value of k currently in the scenario model's equations
          tobj,    \* m -> sc -> id of the points dictionary object the scenario's model uses
          dict,    \* id -> table id                                contents of the points dictionaries (id 0: the base model's)
          nextObj,
          sess,    \* Null | [m, sc, sibs, k, tab, steps]           the live stepwise session: step settings go to scenario sc;
                   \*                                               sibs = the other scenarios of m stepped in the same session
          hist

vars == <<mgr, scen, mk, tobj, dict, nextObj, sess, hist>>
core == <<mgr, scen, mk, tobj, dict, nextObj, sess>>

Null == [none |-> TRUE]
BaseK == 1
BaseTab == "A"
BaseRS == "r0"
Reg(m, sc) == mgr[m] # Null /\ scen[m][sc] # Null
InSession(m, sc) == sess # Null /\ ((sess.m = m /\ sess.sc = sc) \/ <<m, sc>> \in sess.sibs)

\* what a scenario is simulated with ----------------------------------------------------------------
\* intended: own value, else the manager's base value, else the model's
\* (add_scenarios copies the base values into the scenario's settings at registration, so "own" includes them)
EffK(m, sc) == IF scen[m][sc].k > 0 THEN scen[m][sc].k
               ELSE IF "D23_step_setting_sticks" \in Dev THEN mk[m][sc] ELSE BaseK
EffTab(m, sc) == IF scen[m][sc].tab # "" THEN scen[m][sc].tab ELSE dict[tobj[m][sc]]
EffRS(m, sc) == IF scen[m][sc].rs # "" THEN scen[m][sc].rs ELSE BaseRS
Eff(m, sc) == [k |-> EffK(m, sc), tab |-> EffTab(m, sc), rs |-> EffRS(m, sc)]
BaseEff == [k |-> BaseK, tab |-> dict[0], rs |-> BaseRS]
\* observation after every action: every registered scenario that is not in the live session, and the base model
AllEff == [m \in {x \in Mgrs : mgr'[x] # Null} |->
             [sc \in {y \in Scs : scen'[m][y] # Null /\ ~(sess' # Null /\ ((sess'.m = m /\ sess'.sc = y) \/ <<m, y>> \in sess'.sibs))} |->
                [k |-> IF scen'[m][sc].k > 0 THEN scen'[m][sc].k ELSE IF "D23_step_setting_sticks" \in Dev THEN mk'[m][sc] ELSE BaseK,
                 tab |-> IF scen'[m][sc].tab # "" THEN scen'[m][sc].tab ELSE dict'[tobj'[m][sc]],
                 rs |-> IF scen'[m][sc].rs # "" THEN scen'[m][sc].rs ELSE BaseRS]]]
Log(rec) == hist' = IF L = 0 THEN hist ELSE Append(hist, rec @@ [all |-> AllEff, base |-> [k |-> BaseK, tab |-> dict'[0], rs |-> BaseRS]])

(********************************* actions **********************************)
RegMgr(m, bk, bt) ==       \* bptk.register_scenario_manager({m: {"model": base, "base_constants": .., "base_points": ..}})
    /\ "RegMgr" \in Ops /\ mgr[m] = Null
    /\ mgr' = [mgr EXCEPT ![m] = [bk |-> bk, bt |-> bt]]
    /\ UNCHANGED <<scen, mk, tobj, dict, nextObj, sess>>
    /\ Log([op |-> "RegMgr", m |-> m, bk |-> bk, bt |-> bt])

Register(m, sc, k, tab, rs) ==    \* bptk.register_scenarios({sc: {constants, points, runspecs}}, m): the base model is cloned
    /\ "Register" \in Ops /\ mgr[m] # Null
    /\ (scen[m][sc] = Null \/ ("ReRegister" \in Ops /\ ~InSession(m, sc)))      \* a name registered again is a NEW scenario: nothing of the old one survives
    /\ LET k2 == IF k > 0 THEN k ELSE mgr[m].bk               \* base constants / points fill what the scenario does not list
           t2 == IF tab # "" THEN tab ELSE mgr[m].bt
       IN /\ scen' = [scen EXCEPT ![m][sc] = [k |-> k2, tab |-> t2, rs |-> rs]]
          /\ mk' = [mk EXCEPT ![m][sc] = BaseK]
          /\ IF t2 # "" \/ "D06_points_shared" \notin Dev
             THEN /\ tobj' = [tobj EXCEPT ![m][sc] = nextObj]           \* the clone gets its own dictionary
                  /\ dict' = dict @@ (nextObj :> IF t2 # "" THEN t2 ELSE dict[0])
                  /\ nextObj' = nextObj + 1
             ELSE /\ tobj' = [tobj EXCEPT ![m][sc] = 0]                 \* deviation: the clone shares the base model's dictionary
                  /\ UNCHANGED <<dict, nextObj>>
    /\ UNCHANGED <<mgr, sess>>
    /\ Log([op |-> "Register", m |-> m, sc |-> sc, k |-> k, tab |-> tab, rs |-> rs])

\* applying a scenario's settings to its model (fresh SdSimulation of a run or of the first step of a session)
Applied(m, sc) == /\ mk' = [mk EXCEPT ![m][sc] = IF scen[m][sc].k > 0 THEN scen[m][sc].k ELSE @]
                  /\ dict' = IF scen[m][sc].tab # "" THEN [dict EXCEPT ![tobj[m][sc]] = scen[m][sc].tab] ELSE dict

Run(m, sc) ==              \* bptk.run_scenarios(scenario_managers=[m], scenarios=[sc], ...)
    /\ "Run" \in Ops /\ Reg(m, sc) /\ ~InSession(m, sc)
    /\ Applied(m, sc)
    /\ UNCHANGED <<mgr, scen, tobj, nextObj, sess>>
    /\ Log([op |-> "Run", m |-> m, sc |-> sc, res |-> Eff(m, sc)])

SetLater(m, sc, k, tab, rs, channel) ==   \* settings supplied after registration; they persist in the scenario
    /\ channel \in Ops /\ Reg(m, sc) /\ ~InSession(m, sc) /\ (k > 0 \/ tab # "" \/ rs # "")
    /\ scen' = [scen EXCEPT ![m][sc] = [k |-> IF k > 0 THEN k ELSE @.k, tab |-> IF tab # "" THEN tab ELSE @.tab,
                                        rs |-> IF rs # "" THEN rs ELSE @.rs]]
    /\ UNCHANGED <<mgr, mk, tobj, dict, nextObj, sess>>
    /\ Log([op |-> channel, m |-> m, sc |-> sc, k |-> k, tab |-> tab, rs |-> rs])
\* channels: "RestRun" (POST /run with settings, then runs), "SetProp" (scenario.set_property_value; constants only)

\* A session names scenario managers and scenario names; it steps every registered scenario in the product.  wideS: all scenario
\* names of manager m, wideM: all registered managers.  Step settings go to <<m, sc>> only; the other members are its siblings.
Members(m, sc, wideS, wideM) ==     \* (built as a union of explicit singletons: TLC must be able to write the set to disk)
    UNION {IF scen[mm][y] # Null THEN {<<mm, y>>} ELSE {} :
              mm \in (IF wideM THEN {x \in Mgrs : mgr[x] # Null} ELSE {m}), y \in (IF wideS THEN {z \in Scs : scen[m][z] # Null} ELSE {sc})}
Sibs(m, sc, wideS, wideM) == Members(m, sc, wideS, wideM) \ {<<m, sc>>}
Begin(m, sc, k, tab, wideS, wideM) ==    \* bptk.begin_session(scenarios=[..], scenario_managers=[..], settings={m: {sc: {...}}})
    /\ "Begin" \in Ops /\ Reg(m, sc) /\ sess = Null
    /\ ((wideS \/ wideM) => "BeginWide" \in Ops /\ Sibs(m, sc, wideS, wideM) # {})
    /\ (wideM => "BeginMgrs" \in Ops)
    /\ \A p \in Sibs(m, sc, wideS, wideM) : EffRS(p[1], p[2]) = EffRS(m, sc)          \* one time grid for the whole session
    /\ scen' = [scen EXCEPT ![m][sc] = [k |-> IF k > 0 THEN k ELSE @.k, tab |-> IF tab # "" THEN tab ELSE @.tab, rs |-> @.rs]]
    /\ sess' = [m |-> m, sc |-> sc, sibs |-> Sibs(m, sc, wideS, wideM), k |-> 0, tab |-> "", steps |-> 0]       \* k = 0: nothing applied yet
    /\ UNCHANGED <<mgr, mk, tobj, dict, nextObj>>
    /\ Log([op |-> "Begin", m |-> m, sc |-> sc, k |-> k, tab |-> tab, sibs |-> Sibs(m, sc, wideS, wideM)])

Step(k, tab) ==            \* bptk.run_step(settings={m: {sc: {...}}}): settings hold from this step on, for this session
    /\ "Step" \in Ops /\ sess # Null /\ sess.steps < 3
    /\ (StepOnlyListed => ((k > 0 => scen[sess.m][sess.sc].k > 0) /\ (tab # "" => scen[sess.m][sess.sc].tab # "")))
    /\ UNCHANGED <<mgr, scen, tobj, nextObj>>
    /\ LET m == sess.m  sc == sess.sc
           k0 == IF sess.steps = 0 THEN EffK(m, sc) ELSE sess.k          \* the first step builds the simulation from the scenario
           t0 == IF sess.steps = 0 THEN EffTab(m, sc) ELSE sess.tab
           k1 == IF k > 0 THEN k ELSE k0
           t1 == IF tab # "" THEN tab ELSE t0
           first(p) == sess.steps = 0 /\ p \in sess.sibs                \* a sibling's simulation is built from ITS scenario
       IN /\ sess' = [sess EXCEPT !.k = k1, !.tab = t1, !.steps = @ + 1]
          /\ mk' = [mm \in Mgrs |-> [y \in Scs |-> IF mm = m /\ y = sc THEN k1                \* the step mutates the scenario's model
                                                  ELSE IF first(<<mm, y>>) /\ scen[mm][y].k > 0 THEN scen[mm][y].k ELSE mk[mm][y]]]
          /\ dict' = [id \in DOMAIN dict |->
                         IF id = tobj[m][sc] THEN t1
                         ELSE IF \E p \in sess.sibs : first(p) /\ tobj[p[1]][p[2]] = id /\ scen[p[1]][p[2]].tab # ""
                              THEN LET q == CHOOSE p \in sess.sibs : tobj[p[1]][p[2]] = id /\ scen[p[1]][p[2]].tab # "" IN scen[q[1]][q[2]].tab
                              ELSE dict[id]]
          /\ Log([op |-> "Step", m |-> m, sc |-> sc, k |-> k, tab |-> tab, n |-> sess.steps,
                  res |-> [k |-> k1, tab |-> t1, rs |-> EffRS(m, sc)],
                  sibs |-> {[m |-> p[1], sc |-> p[2], eff |-> Eff(p[1], p[2])] : p \in sess.sibs}])                   \* a sibling is stepped with its own settings, always

End ==                     \* bptk.end_session(): the live simulation is dropped
    /\ "End" \in Ops /\ sess # Null
    /\ sess' = Null
    /\ UNCHANGED <<mgr, scen, tobj, nextObj>>
    /\ LET m == sess.m  sc == sess.sc IN
       \* intended: what the steps changed in the model is gone with the session (the next run rebuilds from the scenario)
       IF "D23_step_setting_sticks" \in Dev THEN UNCHANGED <<mk, dict>>
       ELSE /\ mk' = [mk EXCEPT ![m][sc] = BaseK]
            /\ dict' = IF scen[m][sc].tab # "" THEN dict ELSE [dict EXCEPT ![tobj[m][sc]] = IF mgr[m].bt # "" THEN mgr[m].bt ELSE BaseTab]
    /\ Log([op |-> "End"])

ResetCache(m, sc) ==       \* bptk.reset_scenario_cache(m, sc)
    /\ "ResetCache" \in Ops /\ Reg(m, sc) /\ ~InSession(m, sc)
    /\ UNCHANGED core
    /\ Log([op |-> "ResetCache", m |-> m, sc |-> sc])

Init == /\ mgr = [m \in Mgrs |-> Null] /\ scen = [m \in Mgrs |-> [sc \in Scs |-> Null]]
        /\ mk = [m \in Mgrs |-> [sc \in Scs |-> BaseK]] /\ tobj = [m \in Mgrs |-> [sc \in Scs |-> 0]]
        /\ dict = (0 :> BaseTab) /\ nextObj = 1 /\ sess = Null /\ hist = <<>>

DoRegMgr == \E m \in Mgrs, bk \in KVals, bt \in Tabs : RegMgr(m, bk, bt)
DoRegister == \E m \in Mgrs, sc \in Scs, k \in KVals, tab \in Tabs, rs \in RSs : Register(m, sc, k, tab, rs)
DoRun == \E m \in Mgrs, sc \in Scs : Run(m, sc)
DoRestRun == \E m \in Mgrs, sc \in Scs, k \in KVals, tab \in Tabs, rs \in RSs : SetLater(m, sc, k, tab, rs, "RestRun")
DoSetProp == \E m \in Mgrs, sc \in Scs, k \in KVals : SetLater(m, sc, k, "", "", "SetProp")
DoBegin == \E m \in Mgrs, sc \in Scs, k \in KVals, tab \in Tabs, wideS \in BOOLEAN, wideM \in BOOLEAN : Begin(m, sc, k, tab, wideS, wideM)
DoStep == \E k \in KVals, tab \in Tabs : Step(k, tab)
DoReset == \E m \in Mgrs, sc \in Scs : ResetCache(m, sc)
Next == DoRegMgr \/ DoRegister \/ DoRun \/ DoRestRun \/ DoSetProp \/ DoBegin \/ DoStep \/ End \/ DoReset
Spec == Init /\ [][Next]_vars

(******************************** properties ********************************)
\* C06: the base model is never affected
BaseIntact == dict[0] = BaseTab
\* C06: an action on one scenario leaves what every other scenario is simulated with unchanged
Touched == IF hist' = hist THEN <<"", "">>
           ELSE LET h == hist'[Len(hist')] IN IF "sc" \in DOMAIN h THEN <<h.m, h.sc>> ELSE IF h.op = "End" THEN <<sess.m, sess.sc>> ELSE <<"", "">>
Isolated == [][\A m \in Mgrs, sc \in Scs : (Reg(m, sc) /\ <<m, sc>> # Touched /\ ~InSession(m, sc)) => Eff(m, sc)' = Eff(m, sc)]_vars
\* C06: the scenarios stepped alongside the one that receives step settings keep what they are simulated with
SiblingsKeep == [][(sess # Null /\ sess' # Null) => \A p \in sess.sibs : Eff(p[1], p[2])' = Eff(p[1], p[2])]_vars
\* C07: a scenario is simulated with its own settings over the manager's base values over the model's values
Exact == \A m \in Mgrs, sc \in Scs : (Reg(m, sc) /\ ~InSession(m, sc)) =>
            /\ Eff(m, sc).k = IF scen[m][sc].k > 0 THEN scen[m][sc].k ELSE BaseK
            /\ Eff(m, sc).tab = IF scen[m][sc].tab # "" THEN scen[m][sc].tab ELSE BaseTab
NoOverrideMeansModel == \A m \in Mgrs, sc \in Scs : (Reg(m, sc) /\ ~InSession(m, sc) /\ scen[m][sc] = [k |-> 0, tab |-> "", rs |-> ""])
                           => Eff(m, sc) = [k |-> BaseK, tab |-> BaseTab, rs |-> BaseRS]

View == core
Bound == Len(hist) <= L
Emit == Len(hist) = L => PrintT(ToJson(hist))
=============================================================================
