------------------------------ MODULE SdModel ------------------------------
(***************************************************************************)
(* Explicit-Euler semantics of a stock-and-flow model (C01, C04).          *)
(*                                                                         *)
(* The reference family (parameters P chosen in Init from a menu):         *)
(*   converter c1 = a*TIME - b                 (rises or falls, may be < 0)*)
(*   flow    fin  = c1          clamped at 0   (non-negative flow)         *)
(*   biflow  bf   = c1          not clamped                                *)
(*   flow    fout = q * s1      clamped at 0   (q = outflow fraction/time) *)
(*   flow    fo2  = g           clamped at 0   (constant second outflow)   *)
(*   stock   s1: s1(start) = s0,  s1' = fin - fout - fo2                   *)
(*   stock   s2: s2(start) = 0,   s2' = bf + fout                          *)
(*   stock   s3: s3(start) = 0,   s3' = max(c1, g)   (function of elements *)
(*                                  written directly in the stock equation) *)
(*   stock   s4: s4(start) = 0,   s4' = lookup(TIME, pts) + c1^2           *)
(*   lookup  lkt = lookup(TIME, pts),  lks = lookup(s1, pts)               *)
(*   delay   dl  = delay(c1, dn*dt, dinit)   (dinit = None: input at start)*)
(*   smooth  sm  = smooth(c1, T, sinit)    first-order exponential average *)
(*   trend   tr  = (c1 - av)/(av*T), av the exponential average from tinit *)
(*   step    st  = h after t0,  pulse pl = v/dt at first + m*interval      *)
(* The state machine advances the grid index i by one Euler step:          *)
(*   stock(t+dt) = stock(t) + dt * netflow(t), everything else is its      *)
(*   equation at t.  `traj' records the value of every element at every    *)
(*   grid time; it is the oracle for the SD DSL (C01) and for the          *)
(*   transpiled XMILE model (C04).                                         *)
(***************************************************************************)
EXTENDS Rat, TLC, Json

CONSTANTS Params,     \* set of parameter records
          RunSpecs    \* set of [start, dt, n] (start, dt rationals)

VARIABLES P, rs, i, s1, s2, s3, s4, sm, av, sm0, avx, hist, traj
vars == <<P, rs, i, s1, s2, s3, s4, sm, av, sm0, avx, hist, traj>>

None == <<0, 0>>
T(k) == Add(rs.start, Mul(R(k), rs.dt))           \* grid time
Clamp(x) == IF ~IsDef(x) THEN Undef ELSE IF x[1] < 0 THEN R(0) ELSE x
C1(k) == Sub(Mul(P.a, T(k)), P.b)

\* clamped linear interpolation through the points pts = << <<x1,y1>>, ... >> (x strictly increasing)
Lookup(x, pts) ==
    IF ~IsDef(x) THEN Undef
    ELSE IF Le(x, pts[1][1]) THEN pts[1][2]
    ELSE IF Le(pts[Len(pts)][1], x) THEN pts[Len(pts)][2]
    ELSE LET k == CHOOSE j \in 1..(Len(pts) - 1) : Le(pts[j][1], x) /\ Lt(x, pts[j + 1][1])
             x0 == pts[k][1]  y0 == pts[k][2]  x1 == pts[k + 1][1]  y1 == pts[k + 1][2]
         IN Add(y0, Div(Mul(Sub(y1, y0), Sub(x, x0)), Sub(x1, x0)))

\* the other two XMILE graphical-function types: "extrapolate" continues the first / last segment beyond the end points,
\* "discrete" holds the value of the point at or to the left of x (clamped outside)
LookupX(x, pts) ==
    IF ~IsDef(x) THEN Undef
    ELSE LET n == Len(pts)
             seg(k) == Add(pts[k][2], Div(Mul(Sub(pts[k + 1][2], pts[k][2]), Sub(x, pts[k][1])), Sub(pts[k + 1][1], pts[k][1])))
         IN IF Lt(x, pts[1][1]) THEN seg(1) ELSE IF Lt(pts[n][1], x) THEN seg(n - 1) ELSE Lookup(x, pts)
LookupD(x, pts) ==
    IF ~IsDef(x) THEN Undef
    ELSE IF Lt(x, pts[1][1]) THEN pts[1][2]
    ELSE pts[CHOOSE j \in 1..Len(pts) : Le(pts[j][1], x) /\ (j = Len(pts) \/ Lt(x, pts[j + 1][1]))][2]

\* value of every element at grid index k, given the stock-like state at k
\* XMILE time built-ins over the same input c1 (beyond the listed properties; replayed by the extension check X01):
\*   STEP(h, t0) switches at t >= t0;  RAMP(h, t0) = h*(t - t0) after t0;  DELAY(c1, dn*dt [, dinit]);  SMTH1(c1, T [, sinit])
\*   (without initial value it starts at the input);  TREND(c1, T, xti) with the average initialised to c1/(1 + xti*T);
\*   FORCST(c1, T, hz, xti) = c1*(1 + trend*hz);  PREVIOUS(c1, pinit);  INIT(c1);  PULSE(pv, first, interval)
XRow(k, c1, vsm, vsm0, vavx, h, dlv, plv) ==
    LET xtr == Div(Sub(c1, vavx), Mul(vavx, P.T)) IN
    [xst |-> IF Le(P.t0, T(k)) THEN P.h ELSE R(0),
     xrm |-> IF Lt(P.t0, T(k)) THEN Mul(P.h, Sub(T(k), P.t0)) ELSE R(0),
     xdl |-> dlv, xsm |-> vsm, xsm0 |-> vsm0, xtr |-> xtr, xfc |-> Mul(c1, Add(R(1), Mul(xtr, P.hz))),
     xpv |-> IF k = 0 THEN P.pinit ELSE h[k], xin |-> h[1], xpl |-> plv]
Row(k, vs1, vs2, vs3, vs4, vsm, vav, h) ==
    LET c1 == C1(k)
        fout == Clamp(Mul(P.q, vs1))
    IN [t |-> T(k), c1 |-> c1, fin |-> Clamp(c1), bf |-> c1, fout |-> fout, fo2 |-> Clamp(P.g), s1 |-> vs1, s2 |-> vs2, s3 |-> vs3, s4 |-> vs4,
        lkt |-> Lookup(T(k), P.pts), lks |-> Lookup(vs1, P.pts),
        lk2 |-> Add(Lookup(T(k), P.pts), R(1)),        \* a second graphical function over TIME: the same x points, every y one higher
        lkx |-> LookupX(T(k), P.pts), lkd |-> LookupD(T(k), P.pts), lkxs |-> LookupX(vs1, P.pts),
        dl |-> IF k >= P.dn THEN h[k - P.dn + 1] ELSE IF P.dinit = None THEN h[1] ELSE P.dinit,
        sm |-> vsm,
        tr |-> Div(Sub(c1, vav), Mul(vav, P.T)),
        st |-> IF Lt(P.t0, T(k)) THEN P.h ELSE R(0),
        stx |-> IF Le(P.t0, T(k)) THEN P.h ELSE R(0),        \* XMILE STEP switches at t >= t0
        pl |-> IF k >= P.pfirst /\ (P.pint = 0 => k = P.pfirst) /\ (P.pint > 0 => (k - P.pfirst) % P.pint = 0) THEN Div(P.pv, rs.dt) ELSE R(0)]

Init == /\ P \in Params /\ rs \in RunSpecs /\ i = 0
        /\ s1 = P.s0 /\ s2 = R(0) /\ s3 = R(0) /\ s4 = R(0) /\ sm = P.sinit /\ av = P.tinit
        /\ sm0 = Sub(Mul(P.a, rs.start), P.b)
        /\ avx = Div(Sub(Mul(P.a, rs.start), P.b), Add(R(1), Mul(P.xti, P.T)))
        /\ hist = << Sub(Mul(P.a, rs.start), P.b) >>
        /\ traj = << >>

\* one Euler step: record the row at i, then integrate the stocks (and the stock-like averages) to i+1
EulerStep ==
    /\ i <= rs.n
    /\ LET row == Row(i, s1, s2, s3, s4, sm, av, hist)
           net1 == Sub(Sub(row.fin, row.fout), row.fo2)
           net2 == Add(row.bf, row.fout)
       IN /\ traj' = Append(traj, row @@ XRow(i, row.c1, sm, sm0, avx, hist, row.dl, row.pl))
          /\ sm0' = Add(sm0, Mul(rs.dt, Div(Sub(row.c1, sm0), P.T)))
          /\ avx' = Add(avx, Mul(rs.dt, Div(Sub(row.c1, avx), P.T)))
          /\ s1' = Add(s1, Mul(rs.dt, net1))
          /\ s2' = Add(s2, Mul(rs.dt, net2))
          /\ s3' = Add(s3, Mul(rs.dt, MaxR(row.c1, P.g)))
          /\ s4' = Add(s4, Mul(rs.dt, Add(row.lkt, Mul(row.c1, row.c1))))
          /\ sm' = Add(sm, Mul(rs.dt, Div(Sub(row.c1, sm), P.T)))
          /\ av' = Add(av, Mul(rs.dt, Div(Sub(row.c1, av), P.T)))
          /\ hist' = Append(hist, C1(i + 1))
    /\ i' = i + 1
    /\ UNCHANGED <<P, rs>>
Next == EulerStep
Spec == Init /\ [][Next]_vars

(******************************** properties ********************************)
\* the recorded trajectory satisfies the difference equations (guards against a slip in the step itself)
EulerRelation == \A k \in 1..(Len(traj) - 1) :
                    (IsDef(traj[k + 1].s1) /\ IsDef(traj[k].s1))
                    => traj[k + 1].s1 = Add(traj[k].s1, Mul(rs.dt, Sub(Sub(traj[k].fin, traj[k].fout), traj[k].fo2)))
FlowsNonNegative == \A k \in 1..Len(traj) : (IsDef(traj[k].fin) => traj[k].fin[1] >= 0) /\ (IsDef(traj[k].fout) => traj[k].fout[1] >= 0)
GridExact == \A k \in 1..Len(traj) : traj[k].t = T(k - 1)
Emit == i = rs.n + 1 => PrintT(ToJson([P |-> P, rs |-> rs, traj |-> traj]))
=============================================================================
