-------------------------- MODULE StepLockTrace --------------------------
(***************************************************************************)
(* Code -> spec: every event sequence recorded from the real server by the *)
(* line-level scheduler must be a behaviour of StepLock (Dev = {}).  A     *)
(* trace that cannot be continued, or that ends with requests unfinished,  *)
(* leaves TraceNext disabled: TLC reports it as a deadlock, and the state  *)
(* (tid, l) names the first event the specification cannot explain.  The   *)
(* invariants of StepLock are evaluated in every state of every trace.     *)
(***************************************************************************)
EXTENDS StepLock

CONSTANT Traces       \* Seq of traces; a trace is a Seq of [r, act, lock, clock]
VARIABLES tid, l

tvars == <<vars, tid, l>>

TraceInit == Init /\ tid \in 1..Len(Traces) /\ l = 1

Explain(e) ==
    /\ CASE e.act = "T" -> TryLock(e.r)
         [] e.act = "C" -> Check(e.r)
         [] e.act = "K" -> Take(e.r)
         [] e.act = "R" -> Read(e.r)
         [] e.act = "W" -> Write(e.r)
         [] e.act = "U" -> Unlock(e.r)
         [] e.act = "G" -> SaveReq(e.r)
         [] e.act = "D" -> Close(e.r)
         [] e.act = "S" -> IF pc[e.r] = "look" THEN Look(e.r) ELSE Snap(e.r)
         [] e.act = "P" -> Put(e.r)
         [] OTHER -> FALSE
    /\ lock' = e.lock /\ clock' = e.clock

TraceNext ==
    \/ /\ l <= Len(Traces[tid])
       /\ Explain(Traces[tid][l])
       /\ l' = l + 1 /\ UNCHANGED tid
    \/ /\ \E r \in Reqs : /\ \A j \in 1..Len(Traces[tid]) : Traces[tid][j].r # r      \* a request rejected before it reaches the
                          /\ Early(r)                                                 \* lock leaves no event at all
       /\ UNCHANGED <<tid, l>>
    \/ /\ l > Len(Traces[tid]) /\ Quiescent          \* whole trace explained and every request ended
       /\ UNCHANGED tvars

TraceSpec == TraceInit /\ [][TraceNext]_tvars
=============================================================================
