----------------------------- MODULE StepLock -----------------------------
(***************************************************************************)
(* Concurrent step-advancing requests on ONE server instance, at the       *)
(* granularity of the critical sections of the handlers (C18).             *)
(*                                                                         *)
(* Each request r is a little process.  One action = the code a request    *)
(* executes between two anchors (the harness parks real request threads    *)
(* at exactly these source lines):                                         *)
(*   T  instance.try_lock()            atomic test-and-set   (intended)    *)
(*   C  instance.is_locked()           check only            (deviation)   *)
(*   K  instance.lock()                take, unconditionally (deviation)   *)
(*   R  step = session_state["step"]   read the clock  (top of run_step)   *)
(*   W  session_state["step"] = ...    log result, advance the clock       *)
(*   U  instance.unlock()              release                             *)
(*   S  copy of the session state      snapshot for the external store     *)
(*   P  adapter writes the snapshot    the store now holds the snapshot    *)
(*   D  Response.close()               the WSGI server closes a streamed   *)
(*                                     response after its last chunk       *)
(* Request kinds: "step" (run-step), "steps" (run-steps, N steps),         *)
(* "stream" (stream-steps: until the stop time; the client may go away     *)
(* after Abort[r] results), "err" (any of the three with a body the        *)
(* handler rejects: malformed JSON, missing settings / numberSteps - the   *)
(* request fails either before it touches the lock or after taking it, and *)
(* then it must release it without stepping).                              *)
(* Dev = {} is the intended protocol; members of Dev are named deviations. *)
(***************************************************************************)
EXTENDS Integers, Sequences, FiniteSets, TLC, Json

CONSTANTS Reqs,        \* request ids
          Kind,        \* [Reqs -> {"step", "steps", "stream"}]
          Abort,       \* [Reqs -> 0..] : a stream client goes away after that many results (0 = never)
          N,           \* steps asked by a "steps" request
          Stop,        \* stop time of the session (the clock starts at 1)
          Store,       \* BOOLEAN: the server has an external state adapter (every stepping request externalises the session)
          Dev

VARIABLES lock,        \* the advisory lock flag of the session
          clock,       \* the session clock
          log,         \* clock values for which a result was logged, in order
          pc,          \* request -> "try" | "check" | "take" | "read" | "write" | "unlock" | "done" | "refused"
          loc,         \* request -> clock value read by the request in its current iteration
          got,         \* request -> Seq of clock values in its response
          left,        \* request -> steps still to do ("steps"/"step")
          holds,       \* request -> it believes it holds the lock
          snap,        \* request -> clock value in the copy of the session it took for the store
          stored,      \* clock value of the session as the external store has it
          sched        \* history: the schedule (sequence of request ids)

vars == <<lock, clock, log, pc, loc, got, left, holds, snap, stored, sched>>
core == <<lock, clock, log, pc, loc, got, left, holds, snap, stored>>

Err(r) == Kind[r] = "err"
\* a request with a bad body fails right after taking the lock; GET /save-state externalises and releases (it does not step)
AfterLock(r) == IF Err(r) THEN "unlock" ELSE IF Kind[r] = "save" THEN "snap" ELSE "read"
NoLockSave == "D19e_save_state_no_lock" \in Dev
CheckThenLock == "D14b_check_then_lock" \in Dev
Locks(r) == Kind[r] # "step" \/ "D14b_step_nolock" \notin Dev

Init == /\ lock = FALSE /\ clock = 1 /\ log = <<>>
        /\ pc = [r \in Reqs |-> IF CheckThenLock \/ ~Locks(r) THEN "check" ELSE "try"]
        /\ loc = [r \in Reqs |-> 0] /\ got = [r \in Reqs |-> <<>>]
        /\ left = [r \in Reqs |-> IF Kind[r] = "steps" THEN N ELSE 1]
        /\ holds = [r \in Reqs |-> FALSE] /\ sched = <<>>
        /\ snap = [r \in Reqs |-> 0] /\ stored = 1          \* begin-session externalised the fresh session

\* the schedule: which request took the step, and whether the implementation has a scheduling point for it ("x") or the step
\* is a part of the previous one there ("-": the loop-exit test, the write that does not happen at the stop time, a rejection)
DidT(r, tag) == sched' = Append(sched, <<r, tag>>)
Did(r) == DidT(r, "x")

\* intended: atomic test-and-set
\* (GET /save-state on a server with a store: it takes the lock of the session too, so that its copy cannot land in the store
\* after a newer one; a session that is being stepped is left to the request that steps it, which externalises it when it ends -
\* its state is only looked at, for the response)
TryLock(r) == /\ pc[r] = "try" /\ (Kind[r] = "save" => Store /\ ~NoLockSave)
              /\ IF lock THEN pc' = [pc EXCEPT ![r] = IF Kind[r] = "save" THEN "look" ELSE "refused"] /\ UNCHANGED <<lock, holds>>
                         ELSE lock' = TRUE /\ holds' = [holds EXCEPT ![r] = TRUE] /\ pc' = [pc EXCEPT ![r] = AfterLock(r)]
              /\ UNCHANGED <<clock, log, loc, got, left, snap, stored>> /\ Did(r)
\* a bad body detected before the lock is touched: the request ends without any effect
Early(r) == /\ Err(r) /\ pc[r] \in {"try", "check"}
            /\ pc' = [pc EXCEPT ![r] = "done"]
            /\ UNCHANGED <<lock, clock, log, loc, got, left, holds, snap, stored>> /\ DidT(r, "-")
\* GET /save-state arriving while stepping requests are in progress: it externalises every instance and touches neither the
\* lock nor the clock of the live session.  Without a store it does nothing at all; deviation D19e: with a store it copies and
\* writes without taking the lock
SaveReq(r) == /\ Kind[r] = "save" /\ pc[r] \in {"try", "check"} /\ (~Store \/ NoLockSave)
              /\ pc' = [pc EXCEPT ![r] = IF Store THEN "snap" ELSE "done"]
              /\ UNCHANGED <<lock, clock, log, loc, got, left, holds, snap, stored>> /\ DidT(r, IF Store THEN "-" ELSE "x")
Look(r) == /\ pc[r] = "look" /\ snap' = [snap EXCEPT ![r] = clock] /\ pc' = [pc EXCEPT ![r] = "done"]
           /\ UNCHANGED <<lock, clock, log, loc, got, left, holds, stored>> /\ Did(r)
\* deviation: check now, lock later (or never, for run-step)
Check(r) == /\ pc[r] = "check" /\ Kind[r] # "save"
            /\ pc' = [pc EXCEPT ![r] = IF lock THEN "refused" ELSE IF Locks(r) THEN "take" ELSE "read"]
            /\ UNCHANGED <<lock, clock, log, loc, got, left, holds, snap, stored>> /\ Did(r)
Take(r) == /\ pc[r] = "take" /\ lock' = TRUE /\ holds' = [holds EXCEPT ![r] = TRUE]
           /\ pc' = [pc EXCEPT ![r] = AfterLock(r)]
           /\ UNCHANGED <<clock, log, loc, got, left, snap, stored>> /\ Did(r)

Aborted(r) == Kind[r] = "stream" /\ Abort[r] > 0 /\ Len(got[r]) >= Abort[r]
More(r) == IF Kind[r] = "stream" THEN clock <= Stop /\ ~Aborted(r) ELSE left[r] > 0
AfterLoop(r) == IF holds[r] THEN "unlock" ELSE "done"
\* Externalising the session: intended - while the request still holds the lock, so that the store never receives an older
\* session after a newer one.  Deviation D19c: the multi-step requests release the lock first and externalise afterwards.
\* (D19d: run-step does the same)
SaveLate(r) == IF Kind[r] = "save" THEN FALSE ELSE IF Kind[r] = "step" THEN "D19d_step_save_after_unlock" \in Dev ELSE "D19c_save_after_unlock" \in Dev
End(r) == IF Kind[r] = "stream" /\ ~Aborted(r) THEN "close" ELSE "done"
AfterSteps(r) == IF Store /\ ~SaveLate(r) THEN "snap" ELSE AfterLoop(r)
\* top of an iteration: loop condition, then run_step reads the clock
Read(r) == /\ pc[r] = "read"
           /\ IF More(r) THEN loc' = [loc EXCEPT ![r] = clock] /\ pc' = [pc EXCEPT ![r] = "write"]
                         ELSE UNCHANGED loc /\ pc' = [pc EXCEPT ![r] = AfterSteps(r)]
           /\ UNCHANGED <<lock, clock, log, got, left, holds, snap, stored>> /\ DidT(r, IF More(r) THEN "x" ELSE "-")
\* the copy of the session state that will be written, and the write
Snap(r) == /\ pc[r] = "snap" /\ snap' = [snap EXCEPT ![r] = clock] /\ pc' = [pc EXCEPT ![r] = "put"]
           /\ UNCHANGED <<lock, clock, log, loc, got, left, holds, stored>> /\ Did(r)
Put(r) == /\ pc[r] = "put" /\ stored' = snap[r]
          /\ pc' = [pc EXCEPT ![r] = IF SaveLate(r) THEN (IF Kind[r] = "stream" /\ ~Aborted(r) THEN "close" ELSE "done") ELSE AfterLoop(r)]
          /\ UNCHANGED <<lock, clock, log, loc, got, left, holds, snap>> /\ Did(r)
\* run_step logs the result under the clock value it read and advances the clock from that value
Write(r) == /\ pc[r] = "write"
            /\ IF loc[r] > Stop THEN UNCHANGED <<clock, log, got>>           \* "Stoptime reached": nothing produced
               ELSE /\ clock' = loc[r] + 1 /\ log' = Append(log, loc[r]) /\ got' = [got EXCEPT ![r] = Append(@, loc[r])]
            /\ left' = [left EXCEPT ![r] = @ - 1]
            /\ pc' = [pc EXCEPT ![r] = "read"]
            /\ UNCHANGED <<lock, loc, holds, snap, stored>> /\ DidT(r, IF loc[r] > Stop THEN "-" ELSE "x")
Unlock(r) == /\ pc[r] = "unlock"
             /\ IF Kind[r] = "stream" /\ "D14a_stream_no_unlock" \in Dev /\ ~Aborted(r)
                THEN UNCHANGED lock                      \* deviation: only the except branch unlocks
                ELSE lock' = FALSE
             /\ holds' = [holds EXCEPT ![r] = FALSE]
             /\ pc' = [pc EXCEPT ![r] = IF Store /\ SaveLate(r) /\ ~Err(r) THEN "snap" ELSE End(r)]
             /\ UNCHANGED <<clock, log, loc, got, left, snap, stored>> /\ Did(r)
\* a stream that ran to its end: the response is closed by the server some time after the generator has ended (and released
\* the lock) - other requests may have been accepted in between.  Closing releases nothing: the lock is not this request's
\* any more.  Deviation D14c: an on-close callback unlocks once more, whoever holds the lock by then.
Close(r) == /\ pc[r] = "close"
            /\ lock' = IF "D14c_close_unlocks" \in Dev THEN FALSE ELSE lock
            /\ pc' = [pc EXCEPT ![r] = "done"]
            /\ UNCHANGED <<clock, log, loc, got, left, holds, snap, stored>> /\ Did(r)

Step(r) == TryLock(r) \/ SaveReq(r) \/ Look(r) \/ Early(r) \/ Check(r) \/ Take(r) \/ Read(r) \/ Write(r) \/ Snap(r) \/ Put(r) \/ Unlock(r) \/ Close(r)
Next == \E r \in Reqs : Step(r)
Spec == Init /\ [][Next]_vars

(******************************** properties ********************************)
Quiescent == \A r \in Reqs : pc[r] \in {"done", "refused"}
Stepping(r) == pc[r] \in {"read", "write", "unlock"}
\* (1) while a multi-step request is in progress every other stepping request is refused
Exclusive == \A r, q \in Reqs : (r # q /\ Kind[r] # "step" /\ Stepping(r)) => ~Stepping(q)
\* (1') with run-step holding the lock too, no two requests ever step at the same time
Serial == \A r, q \in Reqs : (r # q /\ Stepping(r)) => ~Stepping(q)
\* (2) each successful response contains consecutive steps
Consecutive == \A r \in Reqs : \A i \in 1..(Len(got[r]) - 1) : got[r][i + 1] = got[r][i] + 1
\* (3) no simulation time is produced twice
NoDup == \A i, j \in 1..Len(log) : i # j => log[i] # log[j]
\* (4) the clock advanced by exactly the number of steps returned
ClockExact == Quiescent => clock = 1 + Len(log)
\* (5) the lock is released whenever the requests have ended
Released == Quiescent => lock = FALSE
\* (6) when the requests have ended the external store holds the session as it is (nothing acknowledged is missing from it)
StoreCurrent == (Store /\ Quiescent) => stored = clock
\* a refused request produced nothing
RefusedNothing == \A r \in Reqs : (pc[r] = "refused" \/ Err(r)) => got[r] = <<>>

View == core
Outcome == [sched |-> sched, pc |-> pc, got |-> got, clock |-> clock, lock |-> lock, log |-> log, stored |-> stored]
Emit == Quiescent => PrintT(ToJson(Outcome))
=============================================================================
