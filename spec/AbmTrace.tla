----------------------------- MODULE AbmTrace -----------------------------
(***************************************************************************)
(* Code -> spec for the agent registry (C14): operation sequences produced *)
(* by a random driver on a real BPTK_Py.Model, each event carrying the     *)
(* operation, its arguments and the answers of every registry query        *)
(* observed afterwards, must be behaviours of Abm.  An event that the      *)
(* specification cannot explain leaves TraceNext disabled: TLC reports a   *)
(* deadlock whose state (tid, l) names the event.  The registry invariants *)
(* are evaluated in every state of every trace.                            *)
(***************************************************************************)
EXTENDS Abm

CONSTANT Traces       \* Seq of traces; a trace is a Seq of [op, ..args.., q]
VARIABLES tid, l
tvars == <<vars, tid, l>>

TraceInit == Init /\ tid \in 1..Len(Traces) /\ l = 1

Explain(e) ==
    /\ CASE e.op = "Create" -> Create(e.ty, e.v)
         [] e.op = "Delete" -> Delete(e.ids)
         [] e.op = "Configure" -> Configure(e.cfg)
         [] e.op = "Reset" -> Reset
         [] e.op = "SetState" -> SetState(e.id, e.st)
         [] OTHER -> FALSE
    /\ Queries(agents', tmap', nextId') = e.q           \* every observed answer is the specification's answer

TraceNext ==
    \/ /\ l <= Len(Traces[tid]) /\ Explain(Traces[tid][l]) /\ l' = l + 1 /\ UNCHANGED tid
    \/ /\ l > Len(Traces[tid]) /\ UNCHANGED tvars
=============================================================================
