------------------------------- MODULE Memo -------------------------------
(***************************************************************************)
(* The memo of an SD DSL model (C08).                                      *)
(*                                                                         *)
(* Part 1 - edits and evaluations (sequential).  Reference model:          *)
(*   constant c;  flow f (= c, or 2*c);  stock s with initial value iv and *)
(*   s' = f;  constant w that has NO equation at first (an undefined input *)
(*   counts as 0);  converter y (= 2*s + w, or s + 10 + w).                *)
(* Every definition has a version counter def[e].  A memo cell records the *)
(* versions of everything its value depends on, so staleness is syntactic: *)
(* a cell is stale iff some recorded version is no longer current.         *)
(* Intended: every edit through the modelling API empties the memo.        *)
(* Deviation D08a: setting a stock's initial value clears only the stock's *)
(* own cells.                                                              *)
(*                                                                         *)
(* Part 2 - one run, several worker threads (one per requested equation)   *)
(* over the shared memo; memoize is the sequence Check / Compute / Store.  *)
(* x is a stochastic element (each Compute draws a fresh value), z = x.    *)
(* Intended: Store keeps the first stored value and returns it             *)
(* (dict.setdefault).  Deviation D08b: Store overwrites and the thread     *)
(* returns its own draw.                                                   *)
(***************************************************************************)
EXTENDS Integers, Sequences, FiniteSets, TLC, Json

CONSTANTS Times,      \* grid indices 0..N used in evaluations
          CVals, IVals,  \* menus for the constant and the stock's initial value
          Threads,    \* worker threads of part 2: thread -> equation it was asked for ("x" or "z")
          Ops, Dev, L

(******************************* part 1 ************************************)
VARIABLES defs,    \* [c, iv: values; fv, yv: equation variants; ver: element -> version]
          memo,    \* set of cells [e, t, seen]: seen = versions of the definitions the value was computed with
          hist,
          \* part 2 (declared here so that each part can keep the other part's variables constant)
          slot,     \* the memo cell of x at the time in question: 0 = empty, else the draw stored
          pc, mine, \* per thread: program counter; the draw the thread computed (0 = none)
          got,      \* per thread: the value of x the thread ended up with
          ndraw, sched

Elems == {"c", "f", "s", "y", "w"}
Deps(e) == CASE e = "c" -> {"c"} [] e = "f" -> {"c", "f"} [] e = "s" -> {"c", "f", "s"} [] e = "y" -> {"c", "f", "s", "y", "w"} [] e = "w" -> {"w"}
CurV(ver, e) == [d \in Deps(e) |-> ver[d]]
Cur(e) == CurV(defs.ver, e)
Fresh(cell) == cell.seen = Cur(cell.e)
NoStale == \A cell \in memo : Fresh(cell)
\* cells an evaluation of e at t creates (the stock recursion reaches back to the start)
IvCell == IF defs.ive = 1 THEN {<<"c", 0>>} ELSE {}       \* the initial value is the element c: evaluated at the start time
Reach(e, t) == CASE e = "c" -> {<<"c", t>>}
                 [] e = "f" -> {<<"f", t>>, <<"c", t>>}      \* a flow evaluates its equation at the time it is asked for
                 [] e = "s" -> {<<"s", k>> : k \in 0..t} \cup {<<"f", k>> : k \in 0..(t - 1)} \cup {<<"c", k>> : k \in 0..(t - 1)} \cup IvCell
                 [] e = "w" -> {<<"w", t>>}
                 [] e = "y" -> {<<"y", t>>, <<"w", t>>} \cup {<<"s", k>> : k \in 0..t} \cup {<<"f", k>> : k \in 0..(t - 1)} \cup {<<"c", k>> : k \in 0..(t - 1)} \cup IvCell
Has(e, t) == \E cell \in memo : cell.e = e /\ cell.t = t
\* an evaluation only computes (and records with the current versions) what is not cached yet
Filled(e, t) == memo \cup {[e |-> p[1], t |-> p[2], seen |-> Cur(p[1])] : p \in {q \in Reach(e, t) : ~Has(q[1], q[2])}}

Log1(rec) == hist' = IF L = 0 THEN hist ELSE Append(hist, rec @@ [defs |-> [c |-> defs'.c, cd |-> defs'.cd, ovr |-> defs'.ovr, iv |-> defs'.iv, ive |-> defs'.ive, fv |-> defs'.fv, yv |-> defs'.yv, w |-> defs'.w, sv |-> defs'.sv]])
Bump(e) == [defs.ver EXCEPT ![e] = @ + 1]
Cleared == IF "NoReset" \in Dev THEN memo ELSE {}

\* The constant c has two layers: its definition in the model (cd, what a copy of the model starts from) and the value a scenario
\* overrides it with (ovr, 0 = none).  c is what is in force on the model object: the layer that was installed last.
SetConst(v) == /\ "SetConst" \in Ops /\ v # defs.cd
               /\ defs' = [defs EXCEPT !.c = v, !.cd = v, !.ver = Bump("c")] /\ memo' = {}
               /\ Log1([op |-> "SetConst", v |-> v])
\* the initial value of the stock is a number (iv) or an element of the model (ive = 1: the constant c itself)
SetInit(v) == /\ "SetInit" \in Ops /\ (v # defs.iv \/ defs.ive = 1)
              /\ defs' = [defs EXCEPT !.iv = v, !.ive = 0, !.ver = Bump("s")]
              /\ memo' = IF "D08a_initial_value_own_memo_only" \in Dev THEN {cell \in memo : cell.e # "s"} ELSE {}
              /\ Log1([op |-> "SetInit", v |-> v])
SetInitElem == /\ "SetInitElem" \in Ops /\ defs.ive = 0
               /\ defs' = [defs EXCEPT !.ive = 1, !.ver = Bump("s")]
               /\ memo' = IF "D08a_initial_value_own_memo_only" \in Dev THEN {cell \in memo : cell.e # "s"} ELSE {}
               /\ Log1([op |-> "SetInitElem"])
SetFlow(v) == /\ "SetFlow" \in Ops /\ v # defs.fv
              /\ defs' = [defs EXCEPT !.fv = v, !.ver = Bump("f")] /\ memo' = {}
              /\ Log1([op |-> "SetFlow", v |-> v])
SetStockEq(v) == /\ "SetStockEq" \in Ops /\ v # defs.sv        \* the stock's equation is replaced: s' = f, or s' = f + f
                 /\ defs' = [defs EXCEPT !.sv = v, !.ver = Bump("s")] /\ memo' = {}
                 /\ Log1([op |-> "SetStockEq", v |-> v])
SetConv(v) == /\ "SetConv" \in Ops /\ v # defs.yv
              /\ defs' = [defs EXCEPT !.yv = v, !.ver = Bump("y")] /\ memo' = {}
              /\ Log1([op |-> "SetConv", v |-> v])
SetW(v) == /\ "SetW" \in Ops /\ v # defs.w /\ v > 0       \* the first (or a later) definition of the input w
           /\ defs' = [defs EXCEPT !.w = v, !.ver = Bump("w")] /\ memo' = {}
           /\ Log1([op |-> "SetW", v |-> v])
\* routes of an evaluation: "api" = Model.evaluate_equation(name, t); "elem" = calling the element object, element(t)
Eval(e, t, route) == /\ "Eval" \in Ops /\ (route = "elem" => "EvalElem" \in Ops /\ e # "w")
              /\ memo' = Filled(e, t) /\ UNCHANGED defs
              /\ Log1([op |-> "Eval", e |-> e, t |-> t, route |-> route, stale |-> \E cell \in memo : cell.e = e /\ cell.t = t /\ ~Fresh(cell)])
\* Element.plot(return_df=True): evaluates the element over the whole run (the memo is filled through the plotting code only)
Horizon == 0..3
FilledAll(e) == memo \cup {[e |-> p[1], t |-> p[2], seen |-> Cur(p[1])] : p \in {q \in UNION {Reach(e, t) : t \in Horizon} : ~Has(q[1], q[2])}}
Plot(e) == /\ "Plot" \in Ops /\ e # "w"
           /\ memo' = FilledAll(e) /\ UNCHANGED defs
           /\ Log1([op |-> "Plot", e |-> e])
ResetCache == /\ "ResetCache" \in Ops /\ memo # {}
              /\ memo' = {} /\ UNCHANGED defs
              /\ Log1([op |-> "ResetCache"])
\* The scenario's override of c is set to v, the scenario's cache is reset (how = "scenario": bptk.reset_scenario_cache;
\* "model": Model.reset_cache on the scenario's model; "simulation": the override is installed with SdSimulation.change_equation,
\* Model.reset_cache, and the simulation is started directly) and the scenario is run: the override is in force everywhere.
AllRun(ver) == {[e |-> p[1], t |-> p[2], seen |-> CurV(ver, p[1])] : p \in UNION {Reach(e, t) : e \in {"c", "f", "s", "y"}, t \in Horizon}}
ScnRun(v, how) == /\ "ScnRun" \in Ops
                  /\ defs' = [defs EXCEPT !.ovr = v, !.c = v, !.ver = Bump("c")]
                  /\ memo' = AllRun(Bump("c"))
                  /\ Log1([op |-> "ScnRun", v |-> v, how |-> how])
\* The scenario is run again, nothing reset: the run installs the override again.  If another definition of c had been installed
\* in between (SetConst), what was memoised with that definition is not valid any more; otherwise the memo stays.
\* Deviation D08c: the override is installed without a look at the memo.
ScnRerun == /\ "ScnRerun" \in Ops /\ defs.ovr # 0
            /\ LET ver2 == IF defs.c = defs.ovr THEN defs.ver ELSE Bump("c") IN
               /\ defs' = [defs EXCEPT !.c = defs.ovr, !.ver = ver2]
               /\ memo' = IF defs.c = defs.ovr \/ "D08c_override_installed_over_memo" \in Dev
                           THEN memo \cup {cell \in AllRun(ver2) : ~Has(cell.e, cell.t)}
                           ELSE AllRun(ver2)
            /\ Log1([op |-> "ScnRerun"])
\* bptk.run_scenarios several times with different equation lists: the scenario's memo persists between the runs, so
\* a later run reports what the first one computed - also for a scenario whose constant is a stochastic definition
RunTwice == /\ "RunTwice" \in Ops
            /\ UNCHANGED <<defs, memo>>
            /\ Log1([op |-> "RunTwice"])

Idle2 == slot = 0 /\ pc = <<>> /\ mine = <<>> /\ got = <<>> /\ ndraw = 0 /\ sched = <<>>
Init1 == /\ defs = [c |-> 1, cd |-> 1, ovr |-> 0, iv |-> 0, ive |-> 0, fv |-> 1, yv |-> 1, w |-> 0, sv |-> 1, ver |-> [e \in Elems |-> 0]] /\ memo = {} /\ hist = <<>> /\ Idle2
Step1 == \/ \E v \in CVals : SetConst(v)
         \/ \E v \in IVals : SetInit(v)
         \/ SetInitElem
         \/ \E v \in {1, 2} : SetFlow(v) \/ SetConv(v) \/ SetStockEq(v)
         \/ \E v \in CVals : SetW(v)
         \/ \E e \in Elems, t \in Times, r \in {"api", "elem"} : Eval(e, t, r)
         \/ \E e \in Elems : Plot(e)
         \/ ResetCache \/ RunTwice \/ ScnRerun
         \/ \E v \in CVals, how \in {"scenario", "model", "simulation"} : ScnRun(v, how)
Next1 == Step1 /\ UNCHANGED <<slot, pc, mine, got, ndraw, sched>>
vars1 == <<defs, memo, hist>>
Spec1 == Init1 /\ [][Next1]_<<defs, memo, hist, slot, pc, mine, got, ndraw, sched>>
View1 == <<defs, memo>>
VerBound == \A e \in Elems : defs.ver[e] <= 2      \* state constraint for the exhaustive configuration
Bound == Len(hist) <= L
Emit == Len(hist) = L => PrintT(ToJson(hist))

(******************************* part 2 ************************************)
\* memoize(x) executed by each thread: pc "check" -> ("hit" | "compute") -> "store" -> "done".
\* A thread asked for z computes z = x: its own memoize(z) wraps a nested memoize(x); only the nested call
\* on the shared slot of x matters, so both kinds of thread run the same protocol on x and differ in what
\* they report: thread "x" reports x, thread "z" reports what it consumed for x.
vars2 == <<slot, pc, mine, got, ndraw, sched>>
TIds == DOMAIN Threads
Init2 == /\ defs = 0 /\ memo = {} /\ hist = <<>>
         /\ slot = 0 /\ pc = [t \in TIds |-> "check"] /\ mine = [t \in TIds |-> 0] /\ got = [t \in TIds |-> 0]
         /\ ndraw = 0 /\ sched = <<>>
Did(t) == sched' = Append(sched, t)
Check(t) == /\ pc[t] = "check"
            /\ IF slot # 0 THEN pc' = [pc EXCEPT ![t] = "done"] /\ got' = [got EXCEPT ![t] = slot]
                           ELSE pc' = [pc EXCEPT ![t] = "compute"] /\ UNCHANGED got
            /\ UNCHANGED <<slot, mine, ndraw>> /\ Did(t)
Compute(t) == /\ pc[t] = "compute"
              /\ ndraw' = ndraw + 1 /\ mine' = [mine EXCEPT ![t] = ndraw + 1]       \* a stochastic equation: every evaluation is a new draw
              /\ pc' = [pc EXCEPT ![t] = "store"] /\ UNCHANGED <<slot, got>> /\ Did(t)
Store(t) == /\ pc[t] = "store"
            /\ IF "D08b_store_overwrites" \in Dev
               THEN slot' = mine[t] /\ got' = [got EXCEPT ![t] = mine[t]]
               ELSE /\ slot' = IF slot = 0 THEN mine[t] ELSE slot                 \* setdefault: first store wins ...
                    /\ got' = [got EXCEPT ![t] = IF slot = 0 THEN mine[t] ELSE slot]  \* ... and everybody uses the stored value
            /\ pc' = [pc EXCEPT ![t] = "done"] /\ UNCHANGED <<mine, ndraw>> /\ Did(t)
Next2 == (\E t \in TIds : Check(t) \/ Compute(t) \/ Store(t)) /\ UNCHANGED <<defs, memo, hist>>
Spec2 == Init2 /\ [][Next2]_<<defs, memo, hist, slot, pc, mine, got, ndraw, sched>>
AllDone == \A t \in TIds : pc[t] = "done"
\* the value reported for (x, t) is the value every dependent consumed, and it is what the memo holds
SingleValued == AllDone => (\A a, b \in TIds : got[a] = got[b]) /\ (\A a \in TIds : got[a] = slot)
View2 == <<slot, pc, mine, got, ndraw>>
Emit2 == AllDone => PrintT(ToJson([sched |-> sched, got |-> got, slot |-> slot]))
=============================================================================
