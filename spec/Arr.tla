------------------------------- MODULE Arr -------------------------------
(***************************************************************************)
(* Arrayed equations of the SD DSL (C10): what numpy computes for          *)
(* element-wise + - * / (array with array of the same shape, array with    *)
(* scalar, both operand orders), the dot product in its four shape forms,  *)
(* and the aggregates sum, product, mean, median, variance (standard       *)
(* deviation squared), rank and size; and which operand shapes must be     *)
(* rejected.  Values are exact rationals (module Rat).                     *)
(* A shape is <<m, n>>: <<0, 0>> scalar, <<0, n>> vector of length n,      *)
(* <<m, n>> (m >= 1) matrix.  TLC enumerates every case within the bounds  *)
(* and emits operands and expected result; the harness builds the arrayed  *)
(* elements (indexed and named) and compares entry by entry.               *)
(***************************************************************************)
EXTENDS Rat, FiniteSets, TLC, Json

CONSTANTS MaxDim      \* largest vector length / matrix dimension

VARIABLES case, done
vars == <<case, done>>

Reject == "reject"
Scalar == <<0, 0>>
VecShapes == {<<0, n>> : n \in 1..MaxDim}
MatShapes == {<<m, n>> : m \in 1..MaxDim, n \in 1..MaxDim}
Shapes == {Scalar} \cup VecShapes \cup MatShapes
IsVec(s) == s[1] = 0 /\ s[2] > 0
IsMat(s) == s[1] > 0

\* operand values: distinct small integers (second operand strictly positive: it is also used as a divisor)
ValA(i, j) == 3 * i - 2 * j - 1
ValB(i, j) == i * i + 3 * j
Operand(s, which) ==
    IF s = Scalar THEN R(IF which = "A" THEN 5 ELSE 4)
    ELSE IF IsVec(s) THEN [j \in 1..s[2] |-> R(IF which = "A" THEN ValA(1, j) ELSE ValB(1, j))]
    ELSE [i \in 1..s[1] |-> [j \in 1..s[2] |-> R(IF which = "A" THEN ValA(i, j) ELSE ValB(i, j))]]

Op2(op, x, y) == CASE op = "+" -> Add(x, y) [] op = "-" -> Sub(x, y) [] op = "*" -> Mul(x, y) [] op = "/" -> Div(x, y)

(**************************** element-wise ********************************)
EW(op, sa, sb, A, B) ==
    IF sa = Scalar /\ sb = Scalar THEN Op2(op, A, B)
    ELSE IF sa = Scalar THEN (IF IsVec(sb) THEN [j \in 1..sb[2] |-> Op2(op, A, B[j])]
                              ELSE [i \in 1..sb[1] |-> [j \in 1..sb[2] |-> Op2(op, A, B[i][j])]])
    ELSE IF sb = Scalar THEN (IF IsVec(sa) THEN [j \in 1..sa[2] |-> Op2(op, A[j], B)]
                              ELSE [i \in 1..sa[1] |-> [j \in 1..sa[2] |-> Op2(op, A[i][j], B)]])
    ELSE IF IsVec(sa) THEN [j \in 1..sa[2] |-> Op2(op, A[j], B[j])]
    ELSE [i \in 1..sa[1] |-> [j \in 1..sa[2] |-> Op2(op, A[i][j], B[i][j])]]

EWok(sa, sb) == sa = Scalar \/ sb = Scalar \/ sa = sb

(******************************* dot product ********************************)
RECURSIVE SumTo(_, _)
SumTo(f, n) == IF n = 0 THEN R(0) ELSE Add(SumTo(f, n - 1), f[n])
Dot(sa, sb, A, B) ==
    IF IsVec(sa) /\ IsVec(sb) THEN SumTo([k \in 1..sa[2] |-> Mul(A[k], B[k])], sa[2])
    ELSE IF IsMat(sa) /\ IsVec(sb) THEN [i \in 1..sa[1] |-> SumTo([k \in 1..sa[2] |-> Mul(A[i][k], B[k])], sa[2])]
    ELSE IF IsVec(sa) /\ IsMat(sb) THEN [j \in 1..sb[2] |-> SumTo([k \in 1..sa[2] |-> Mul(A[k], B[k][j])], sa[2])]
    ELSE [i \in 1..sa[1] |-> [j \in 1..sb[2] |-> SumTo([k \in 1..sa[2] |-> Mul(A[i][k], B[k][j])], sa[2])]]
\* inner dimensions must agree
Dotok(sa, sb) == IF IsVec(sa) /\ IsVec(sb) THEN sa[2] = sb[2]
                 ELSE IF IsMat(sa) /\ IsVec(sb) THEN sa[2] = sb[2]
                 ELSE IF IsVec(sa) /\ IsMat(sb) THEN sa[2] = sb[1]
                 ELSE sa[2] = sb[1]

(******************************** aggregates ********************************)
Flatten(s, A) == IF IsVec(s) THEN A ELSE [k \in 1..(s[1] * s[2]) |-> A[((k - 1) \div s[2]) + 1][((k - 1) % s[2]) + 1]]
Count(s) == IF IsVec(s) THEN s[2] ELSE s[1] * s[2]
RECURSIVE ProdTo(_, _)
ProdTo(f, n) == IF n = 0 THEN R(1) ELSE Mul(ProdTo(f, n - 1), f[n])
\* number of entries strictly greater / greater-or-equal than x
NGreater(f, n, x) == Cardinality({k \in 1..n : Lt(x, f[k])})
\* r-th largest (r = 1 is the maximum); beyond the number of entries: the smallest
Rank(f, n, r) == LET rr == IF r > n THEN n ELSE r
                 IN f[CHOOSE k \in 1..n : NGreater(f, n, f[k]) < rr /\ rr <= NGreater(f, n, f[k]) + Cardinality({q \in 1..n : f[q] = f[k]})]
Median(f, n) == IF n % 2 = 1 THEN Rank(f, n, (n + 1) \div 2)
                ELSE Div(Add(Rank(f, n, n \div 2), Rank(f, n, n \div 2 + 1)), R(2))
Mean(f, n) == Div(SumTo(f, n), R(n))
Variance(f, n) == LET mu == Mean(f, n) IN Div(SumTo([k \in 1..n |-> Mul(Sub(f[k], mu), Sub(f[k], mu))], n), R(n))
Agg(name, s, A, r) ==
    LET f == Flatten(s, A)  n == Count(s) IN
    CASE name = "sum" -> SumTo(f, n)
      [] name = "prod" -> ProdTo(f, n)
      [] name = "mean" -> Mean(f, n)
      [] name = "median" -> Median(f, n)
      [] name = "variance" -> Variance(f, n)
      [] name = "rank" -> Rank(f, n, r)
      [] name = "size" -> R(IF IsVec(s) THEN s[2] ELSE s[1])      \* the DSL's arr_size is the length of the first dimension

(********************************** cases ***********************************)
EwCases == {[form |-> "ew", op |-> op, sa |-> sa, sb |-> sb, A |-> ToJson(Operand(sa, "A")), B |-> ToJson(Operand(sb, "B")),
             res |-> IF EWok(sa, sb) THEN ToJson(EW(op, sa, sb, Operand(sa, "A"), Operand(sb, "B"))) ELSE Reject]
            : op \in {"+", "-", "*", "/"}, sa \in Shapes, sb \in Shapes}
DotCases == {[form |-> "dot", op |-> "dot", sa |-> sa, sb |-> sb, A |-> ToJson(Operand(sa, "A")), B |-> ToJson(Operand(sb, "B")),
              res |-> IF Dotok(sa, sb) THEN ToJson(Dot(sa, sb, Operand(sa, "A"), Operand(sb, "B"))) ELSE Reject]
             : sa \in Shapes \ {Scalar}, sb \in Shapes \ {Scalar}}
AggCases == {[form |-> "agg", op |-> name, sa |-> sa, sb |-> Scalar, A |-> ToJson(Operand(sa, "A")), B |-> ToJson(R(r)),
              res |-> ToJson(Agg(name, sa, Operand(sa, "A"), r))]
             : name \in {"sum", "prod", "mean", "median", "variance", "size"}, sa \in Shapes \ {Scalar}, r \in {1}}
            \cup {[form |-> "agg", op |-> "rank", sa |-> sa, sb |-> Scalar, A |-> ToJson(Operand(sa, "A")), B |-> ToJson(R(r)),
                   res |-> ToJson(Agg("rank", sa, Operand(sa, "A"), r))] : sa \in Shapes \ {Scalar}, r \in 1..(MaxDim * MaxDim + 1)}
\* life cycle of an array: the first operand had the smaller shape `prev' and was used with it (its size was asked for)
\* before it was set up again with shape sa; the operation must see the shape the array has now
Smaller(sh) == {p \in Shapes \ {Scalar} : (IsVec(p) <=> IsVec(sh)) /\ p[1] <= sh[1] /\ p[2] <= sh[2] /\ p # sh}
RedimCases == {c @@ [prev |-> p] : c \in {d \in EwCases : d.sb = Scalar /\ d.sa # Scalar /\ d.op \in {"*", "+"}} \cup {d \in DotCases : d.res # Reject},
                                   p \in Shapes \ {Scalar}} 
\* named arrays correspond by NAME: each of the two operands and the (stock) result may declare the same names in
\* another order; the value that belongs to a name does not change
Orders == {<<a, b, r>> : a \in {"fwd", "rev"}, b \in {"fwd", "rev"}, r \in {"fwd", "rev"}} \ {<<"fwd", "fwd", "fwd">>}
OrderCases == {c @@ [orders |-> o] : c \in {d \in EwCases : d.sa = d.sb /\ d.sa # Scalar}, o \in Orders}
\* nested element-wise expressions over arrays of one shape: A op (B op2 A) and (A op2 B) op A - the inner expression is
\* one operand of the outer one, entry by entry
ArrShapes == Shapes \ {Scalar}
NestCases == {[form |-> "ew2", op |-> o, op2 |-> o2, pos |-> pos, sa |-> sh, sb |-> sh, A |-> ToJson(Operand(sh, "A")), B |-> ToJson(Operand(sh, "B")),
               res |-> ToJson(IF pos = "R" THEN EW(o, sh, sh, Operand(sh, "A"), EW(o2, sh, sh, Operand(sh, "B"), Operand(sh, "A")))
                                         ELSE EW(o, sh, sh, EW(o2, sh, sh, Operand(sh, "A"), Operand(sh, "B")), Operand(sh, "A")))]
              : o \in {"+", "-", "*"}, o2 \in {"+", "-", "*"}, pos \in {"L", "R"}, sh \in ArrShapes}
\* an aggregate is a function of the array's CURRENT entries: after the aggregate was defined, entry <<1>> / <<1,1>> of the array is
\* given the new value 9 (edit = TRUE), and the aggregate is read again
Edited(sh, X) == IF IsVec(sh) THEN [j \in 1..sh[2] |-> IF j = 1 THEN R(9) ELSE X[j]]
                 ELSE [i \in 1..sh[1] |-> [j \in 1..sh[2] |-> IF i = 1 /\ j = 1 THEN R(9) ELSE X[i][j]]]
AggEditCases == {[form |-> "aggedit", op |-> name, sa |-> sh, sb |-> Scalar, A |-> ToJson(Operand(sh, "A")), B |-> ToJson(R(2)),
                  res |-> ToJson(Agg(name, sh, Edited(sh, Operand(sh, "A")), 2))]
                 : name \in {"sum", "prod", "mean", "median", "variance", "rank"}, sh \in ArrShapes}
\* the dot product next to and around element-wise expressions:
\*   "sub":  U - V.W     (vectors of one length n: the scalar V.W is subtracted from every entry of U)
\*   "in":   A.(B + B*A) (square matrices n x n: an element-wise expression, nested twice, as the second operand of the dot product)
\*   "in1":  A.(B + A)
\* an aggregate used as an OPERAND of a scalar expression: it is one value, whatever operator surrounds it.
\* K is a scalar element: "powbase" agg ** 2, "divright" K / agg, "modright" K % agg, "subright" K - agg, "negmul" (0 - agg) * K
AggIn(op, x, k) == CASE op = "powbase" -> Mul(x, x)
                     [] op = "divright" -> Div(k, x)
                     [] op = "modright" -> Mod(k, x)
                     [] op = "subright" -> Sub(k, x)
                     [] op = "mulright" -> Mul(k, x)
\* (entries 4, 7, 10, ...: none of them 0 or 1, so that a product that falls apart is visible)
AggInCases == {c \in {[form |-> "aggin", op |-> op, agg |-> name, sa |-> sa, sb |-> Scalar, A |-> ToJson(Operand(sa, "B")), B |-> ToJson(R(k)),
                       res |-> ToJson(AggIn(op, Agg(name, sa, Operand(sa, "B"), 1), R(k)))]
                      : op \in {"powbase", "divright", "modright", "subright", "mulright"}, name \in {"sum", "prod", "mean"}, sa \in {<<0, 1>>, <<0, 2>>, <<0, 3>>, <<2, 2>>}, k \in {840, 1000}}
               : LET x == Agg(c.agg, c.sa, Operand(c.sa, "B"), 1) IN IsDef(x) /\ IsDef(AggIn(c.op, x, R(IF c.B = ToJson(R(840)) THEN 840 ELSE 1000))) /\ (c.op = "modright" => x[1] > 0)}
VecN(n, which) == Operand(<<0, n>>, which)
SqN(n, which) == Operand(<<n, n>>, which)
DotMixCases ==
    {[form |-> "dotmix", op |-> "sub", sa |-> <<0, n>>, sb |-> <<0, n>>, A |-> ToJson(VecN(n, "A")), B |-> ToJson(VecN(n, "B")),
      res |-> ToJson(EW("-", <<0, n>>, Scalar, VecN(n, "A"), Dot(<<0, n>>, <<0, n>>, VecN(n, "B"), VecN(n, "A"))))] : n \in 1..MaxDim}
    \cup {[form |-> "dotmix", op |-> "in", sa |-> <<n, n>>, sb |-> <<n, n>>, A |-> ToJson(SqN(n, "A")), B |-> ToJson(SqN(n, "B")),
           res |-> ToJson(Dot(<<n, n>>, <<n, n>>, SqN(n, "A"), EW("+", <<n, n>>, <<n, n>>, SqN(n, "B"), EW("*", <<n, n>>, <<n, n>>, SqN(n, "B"), SqN(n, "A")))))] : n \in 1..MaxDim}
    \cup {[form |-> "dotmix", op |-> "in1", sa |-> <<n, n>>, sb |-> <<n, n>>, A |-> ToJson(SqN(n, "A")), B |-> ToJson(SqN(n, "B")),
           res |-> ToJson(Dot(<<n, n>>, <<n, n>>, SqN(n, "A"), EW("+", <<n, n>>, <<n, n>>, SqN(n, "B"), SqN(n, "A"))))] : n \in 1..MaxDim}
Cases == EwCases \cup DotCases \cup AggCases \cup AggInCases \cup NestCases \cup AggEditCases \cup DotMixCases
         \cup {c \in RedimCases : c.prev \in Smaller(c.sa)} \cup OrderCases

Init == case \in Cases /\ done = FALSE
Next == ~done /\ done' = TRUE /\ UNCHANGED case
Emit == done => PrintT(ToJson(case))
\* sanity: the dot product of conforming shapes is never rejected and has the numpy result shape
DotShapeOK == \A sa, sb \in MatShapes : Dotok(sa, sb) => Len(Dot(sa, sb, Operand(sa, "A"), Operand(sb, "B"))) = sa[1]
                                                           /\ Len(Dot(sa, sb, Operand(sa, "A"), Operand(sb, "B"))[1]) = sb[2]
=============================================================================
