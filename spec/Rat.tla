------------------------------- MODULE Rat -------------------------------
(***************************************************************************)
(* Exact rational arithmetic over TLC's (32-bit, overflow-checked)         *)
(* integers.  A rational is <<n, d>> with d > 0 and gcd(n, d) = 1.         *)
(* Undef marks a value outside the reference semantics (division by zero,  *)
(* non-integer power, numbers that grew beyond Big, ...).                  *)
(***************************************************************************)
EXTENDS Integers, Sequences

Undef == <<0, 0>>
Big == 20000
IsDef(x) == x[2] # 0

AbsI(n) == IF n < 0 THEN 0 - n ELSE n
RECURSIVE Gcd(_, _)
Gcd(a, b) == IF b = 0 THEN a ELSE Gcd(b, a % b)
Norm(n, d) == IF d = 0 THEN Undef
              ELSE LET s == IF d < 0 THEN 0 - 1 ELSE 1
                       g == Gcd(AbsI(n), AbsI(d))
                       nn == (s * n) \div g   dd == (s * d) \div g
                   IN IF AbsI(nn) > Big \/ dd > Big THEN Undef ELSE <<nn, dd>>
R(n) == <<n, 1>>
Add(x, y) == IF ~IsDef(x) \/ ~IsDef(y) THEN Undef
             ELSE LET g == Gcd(x[2], y[2]) IN Norm(x[1] * (y[2] \div g) + y[1] * (x[2] \div g), (x[2] \div g) * y[2])
Neg(x) == IF ~IsDef(x) THEN Undef ELSE <<0 - x[1], x[2]>>
Sub(x, y) == Add(x, Neg(y))
Mul(x, y) == IF ~IsDef(x) \/ ~IsDef(y) THEN Undef
             ELSE LET g1 == Gcd(AbsI(x[1]), y[2])  g2 == Gcd(AbsI(y[1]), x[2])
                      a == IF g1 = 0 THEN 0 ELSE x[1] \div g1   d == IF g1 = 0 THEN y[2] ELSE y[2] \div g1
                      b == IF g2 = 0 THEN 0 ELSE y[1] \div g2   c == IF g2 = 0 THEN x[2] ELSE x[2] \div g2
                  IN Norm(a * b, c * d)
Inv(x) == IF ~IsDef(x) \/ x[1] = 0 THEN Undef ELSE Norm(x[2], x[1])
Div(x, y) == Mul(x, Inv(y))
Lt(x, y) == x[1] * y[2] < y[1] * x[2]
Le(x, y) == x[1] * y[2] <= y[1] * x[2]
Eq(x, y) == x = y
IsInt(x) == x[2] = 1
Floor(x) == IF x[1] >= 0 THEN x[1] \div x[2] ELSE 0 - ((0 - x[1] + x[2] - 1) \div x[2])
\* Python's % : the result has the sign of the divisor
Mod(x, y) == IF ~IsDef(x) \/ ~IsDef(y) \/ y[1] = 0 THEN Undef
             ELSE LET q == Div(x, y) IN IF ~IsDef(q) THEN Undef ELSE Sub(x, Mul(y, R(Floor(q))))
RECURSIVE IPow(_, _)
IPow(x, n) == IF ~IsDef(x) THEN Undef ELSE IF n = 0 THEN R(1) ELSE Mul(x, IPow(x, n - 1))
\* integer exponents in -3..10 only
Pow(x, y) == IF ~IsDef(x) \/ ~IsDef(y) \/ ~IsInt(y) \/ y[1] > 10 \/ y[1] < 0 - 3 THEN Undef
             ELSE IF y[1] >= 0 THEN IPow(x, y[1]) ELSE Inv(IPow(x, 0 - y[1]))
MinR(x, y) == IF ~IsDef(x) \/ ~IsDef(y) THEN Undef ELSE IF Le(x, y) THEN x ELSE y
MaxR(x, y) == IF ~IsDef(x) \/ ~IsDef(y) THEN Undef ELSE IF Le(x, y) THEN y ELSE x
AbsR(x) == IF ~IsDef(x) THEN Undef ELSE <<AbsI(x[1]), x[2]>>
\* exact square root of a rational square, else Undef
ISqrt(n) == IF \E k \in 0..150 : k * k = n THEN CHOOSE k \in 0..150 : k * k = n ELSE 0 - 1
SqrtR(x) == IF ~IsDef(x) \/ x[1] < 0 THEN Undef
            ELSE IF ISqrt(x[1]) >= 0 /\ ISqrt(x[2]) > 0 THEN Norm(ISqrt(x[1]), ISqrt(x[2])) ELSE Undef
\* distance test used to stay away from discontinuities: |x - y| >= 1/1000
Apart(x, y) == LET d == AbsR(Sub(x, y)) IN IsDef(d) /\ ~Lt(d, <<1, 1000>>)
=============================================================================
