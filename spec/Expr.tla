------------------------------- MODULE Expr -------------------------------
(***************************************************************************)
(* Expression trees over the SD vocabulary, their reference value (Eval,   *)
(* exact rational arithmetic with Python's semantics for modulo and power),*)
(* and their two concrete syntaxes:                                        *)
(*   PyText  - the fully parenthesised Python expression over DSL elements *)
(*             that *builds* the tree (C02: the DSL must keep its grouping) *)
(*   XText   - XMILE equation text with minimal or redundant parentheses,  *)
(*             following the XMILE precedence table (C03)                  *)
(* TLC enumerates families of trees (every (outer, position, inner)        *)
(* nesting, associativity chains, bounded-depth enumerations) and emits    *)
(* each with both renderings and its value in every environment; the       *)
(* harness evaluates the renderings with the real DSL / transpiler.        *)
(***************************************************************************)
EXTENDS Rat, FiniteSets, TLC, Json

CONSTANTS ModNonNeg,  \* TRUE: modulo is only defined for non-negative operands (XMILE side), FALSE: Python's %
          Envs,       \* Seq of environments: [a |-> rational, b |-> ..., c |-> ...]
          Family,     \* which family of trees to enumerate: "pairs" | "chains" | "depth2" | "shared"
          BinOps,     \* binary operators in play
          Fn1, Fn2    \* unary / binary functions in play

VARIABLES tree, done
vars == <<tree, done>>

(******************************* trees *************************************)
Var(n) == [k |-> "var", n |-> n]
Lit(q) == [k |-> "lit", q |-> q]
Bin(o, x, y) == [k |-> "bin", op |-> o, l |-> x, r |-> y]
NegT(x) == [k |-> "neg", x |-> x]
F1(f, x) == [k |-> "fn1", f |-> f, x |-> x]
F2(f, x, y) == [k |-> "fn2", f |-> f, x |-> x, y |-> y]
IfT(c, x, y) == [k |-> "if", c |-> c, x |-> x, y |-> y]
NotT(c) == [k |-> "not", c |-> c]

Arith == {"+", "-", "*", "/", "**", "%"}
Cmp == {">", "<", ">=", "<=", "==", "!="}
Logic == {"and", "or"}
A == Var("a")
B == Var("b")
C == Var("c")
T == Var("t")          \* the simulation time (sd.time() / TIME); every evaluation happens at time TimeVal
U == Var("u")          \* a Python variable bound to a sub-expression OBJECT that is used more than once (family "shared")
TimeVal == <<1, 1>>
Leaves == {A, B, C, Lit(<<2, 1>>), Lit(<<1, 2>>)}

(***************************** reference value ****************************)
Bool(p) == IF p THEN R(1) ELSE R(0)
RECURSIVE Fact(_)
Fact(n) == IF n = 0 THEN 1 ELSE n * Fact(n - 1)
IPow2(n) == R(Fact(n))
RECURSIVE Eval(_, _)
Eval(t, env) ==
    CASE t.k = "var" -> (CASE t.n = "t" -> TimeVal [] t.n = "dt" -> R(1) [] t.n = "starttime" -> R(0) [] t.n = "stoptime" -> R(3)   \* run spec of the harness model
                           [] OTHER -> env[t.n])
      [] t.k = "lit" -> t.q
      [] t.k = "neg" -> Neg(Eval(t.x, env))
      [] t.k = "bin" ->
           LET x == Eval(t.l, env)  y == Eval(t.r, env) IN
           IF ~IsDef(x) \/ ~IsDef(y) THEN Undef
           ELSE (CASE t.op = "+" -> Add(x, y)
                  [] t.op = "-" -> Sub(x, y)
                  [] t.op = "*" -> Mul(x, y)
                  [] t.op = "/" -> Div(x, y)
                  [] t.op = "**" -> Pow(x, y)
                  [] t.op = "%" -> LET m == Mod(x, y) IN
                                   IF (IsDef(m) /\ m[1] = 0) \/ (ModNonNeg /\ (x[1] < 0 \/ y[1] <= 0)) THEN Undef ELSE m   \* stay off the discontinuity
                  [] t.op \in Cmp -> IF ~Apart(x, y) THEN Undef     \* ties are discontinuities of the comparison
                                     ELSE (CASE t.op = ">" -> Bool(Lt(y, x)) [] t.op = "<" -> Bool(Lt(x, y))
                                            [] t.op = ">=" -> Bool(Le(y, x)) [] t.op = "<=" -> Bool(Le(x, y))
                                            [] t.op = "==" -> Bool(FALSE) [] t.op = "!=" -> Bool(TRUE))
                  [] t.op = "and" -> Bool(x[1] # 0 /\ y[1] # 0)
                  [] t.op = "or" -> Bool(x[1] # 0 \/ y[1] # 0))
      [] t.k = "not" -> LET x == Eval(t.c, env) IN IF ~IsDef(x) THEN Undef ELSE Bool(x[1] = 0)
      [] t.k = "if" -> LET c == Eval(t.c, env) IN
                       IF ~IsDef(c) THEN Undef ELSE IF c[1] # 0 THEN Eval(t.x, env) ELSE Eval(t.y, env)
      [] t.k = "fn1" ->
           LET x == Eval(t.x, env) IN
           IF ~IsDef(x) THEN Undef
           ELSE (CASE t.f = "abs" -> AbsR(x)
                  [] t.f = "sqrt" -> SqrtR(x)
                  [] t.f = "exp" -> IF x[1] = 0 THEN R(1) ELSE Undef
                  [] t.f = "round" -> IF x[2] = 2 THEN Undef ELSE R(Floor(Add(x, <<1, 2>>)))     \* half-way cases excluded
                  [] t.f = "int" -> IF IsInt(x) THEN Undef ELSE R(Floor(x))            \* largest integer below; integers are the discontinuities
                  [] t.f = "factorial" -> IF IsInt(x) /\ x[1] >= 0 /\ x[1] <= 7 THEN IPow2(x[1]) ELSE Undef)
      [] t.k = "fn2" ->
           LET x == Eval(t.x, env)  y == Eval(t.y, env) IN
           IF ~IsDef(x) \/ ~IsDef(y) THEN Undef
           ELSE IF t.f \in {"combinations", "permutations"}
           THEN (IF IsInt(x) /\ IsInt(y) /\ 0 <= y[1] /\ y[1] <= x[1] /\ x[1] <= 8
                 THEN R(IF t.f = "permutations" THEN Fact(x[1]) \div Fact(x[1] - y[1]) ELSE Fact(x[1]) \div (Fact(y[1]) * Fact(x[1] - y[1])))
                 ELSE Undef)
           ELSE IF ~Apart(x, y) THEN Undef
           ELSE (CASE t.f = "min" -> MinR(x, y) [] t.f = "max" -> MaxR(x, y)
                  [] t.f = "safediv" -> Div(x, y))

(**************************** Python / DSL text ****************************)
LitPy(q) == IF q[2] = 1 THEN ToString(q[1]) ELSE "(" \o ToString(q[1]) \o "/" \o ToString(q[2]) \o ".0)"
RECURSIVE PyText(_)
PyText(t) ==
    CASE t.k = "var" -> (CASE t.n = "t" -> "sd.time()" [] t.n \in {"dt", "starttime", "stoptime"} -> "sd." \o t.n \o "(m)" [] OTHER -> t.n)
      [] t.k = "lit" -> LitPy(t.q)
      [] t.k = "neg" -> "(-" \o PyText(t.x) \o ")"
      [] t.k = "bin" -> IF t.op = "and" THEN "sd.And(" \o PyText(t.l) \o ", " \o PyText(t.r) \o ")"
                        ELSE IF t.op = "or" THEN "sd.Or(" \o PyText(t.l) \o ", " \o PyText(t.r) \o ")"
                        ELSE "(" \o PyText(t.l) \o " " \o t.op \o " " \o PyText(t.r) \o ")"
      [] t.k = "not" -> "sd.Not(" \o PyText(t.c) \o ")"
      [] t.k = "if" -> "sd.If(" \o PyText(t.c) \o ", " \o PyText(t.x) \o ", " \o PyText(t.y) \o ")"
      [] t.k = "fn1" -> IF t.f = "round" THEN "sd.round(" \o PyText(t.x) \o ", 0)" ELSE "sd." \o t.f \o "(" \o PyText(t.x) \o ")"
      [] t.k = "fn2" -> "sd." \o t.f \o "(" \o PyText(t.x) \o ", " \o PyText(t.y) \o ")"

(******************************* XMILE text ********************************)
XOp(o) == CASE o = "**" -> "^" [] o = "%" -> "MOD" [] o = "==" -> "=" [] o = "!=" -> "<>" [] o = "and" -> "AND" [] o = "or" -> "OR" [] OTHER -> o
\* XMILE precedence: OR < AND < = <> < relational < + - < * / MOD < unary < ^
Prec(t) == IF t.k = "bin"
           THEN (CASE t.op = "or" -> 1 [] t.op = "and" -> 2 [] t.op \in {"==", "!="} -> 3 [] t.op \in {">", "<", ">=", "<="} -> 4
                  [] t.op \in {"+", "-"} -> 5 [] t.op \in {"*", "/", "%"} -> 6 [] t.op = "**" -> 8)
           ELSE IF t.k = "neg" THEN 7 ELSE IF t.k \in {"if", "not"} THEN 0 ELSE 9
Par(s) == "(" \o s \o ")"
LitX(q) == IF q[2] = 1 THEN ToString(q[1]) ELSE IF q = <<1, 2>> THEN "0.5" ELSE Par(ToString(q[1]) \o "/" \o ToString(q[2]))
NameX(n, style) == IF style = "red" THEN n ELSE n
RECURSIVE XText(_, _)
XText(t, style) ==
    LET sub(u, need) == IF need \/ (style = "red" /\ u.k \notin {"var", "lit"}) THEN Par(XText(u, style)) ELSE XText(u, style) IN
    CASE t.k = "var" -> (CASE t.n = "t" -> "TIME" [] t.n = "dt" -> "DT" [] t.n = "starttime" -> "STARTTIME" [] t.n = "stoptime" -> "STOPTIME" [] OTHER -> t.n)
      [] t.k = "lit" -> LitX(t.q)
      [] t.k = "neg" -> "-" \o sub(t.x, Prec(t.x) < 8 /\ t.x.k \notin {"var", "lit", "fn1", "fn2"})
      [] t.k = "bin" ->
           LET p == Prec(t)
               lneed == Prec(t.l) < p \/ (Prec(t.l) = p /\ t.op = "**")
               rneed == Prec(t.r) < p \/ (Prec(t.r) = p /\ t.op # "**")
               sp == IF style = "tight" /\ t.op \notin {"%", "and", "or"} THEN "" ELSE " "
           IN (sub(t.l, lneed) \o sp \o XOp(t.op) \o sp \o sub(t.r, rneed))
      [] t.k = "not" -> "NOT " \o Par(XText(t.c, style))
      [] t.k = "if" -> "IF " \o XText(t.c, style) \o " THEN " \o sub(t.x, t.x.k = "if") \o " ELSE " \o sub(t.y, t.y.k = "if")
      [] t.k = "fn1" -> (CASE t.f = "abs" -> "ABS" [] t.f = "sqrt" -> "SQRT" [] t.f = "exp" -> "EXP" [] t.f = "round" -> "ROUND" [] t.f = "int" -> "INT" [] t.f = "factorial" -> "FACTORIAL")
                        \o Par(XText(t.x, style))
      [] t.k = "fn2" -> (CASE t.f = "min" -> "MIN" [] t.f = "max" -> "MAX" [] t.f = "safediv" -> "SAFEDIV" [] t.f = "combinations" -> "COMBINATIONS" [] t.f = "permutations" -> "PERMUTATIONS")
                        \o Par(XText(t.x, style) \o ", " \o XText(t.y, style))

(******************************** families *********************************)
Ops2 == BinOps
\* operand menu for position tests: an element or a literal (literal operands route through __radd__ etc.)
Fn1F == Fn1 \ {"runspec"}        \* "runspec" in Fn1 only switches the run-spec leaves on
Inner(o) == {Bin(o, A, B), Bin(o, B, C), Bin(o, Lit(<<2, 1>>), B), Bin(o, A, Lit(<<2, 1>>)), Bin(o, T, B), Bin(o, A, T)}
\* the run-spec functions of the DSL (dt(), starttime(), stoptime()) as operands
RunSpecLeaves == IF "runspec" \in Fn1 THEN {Var("dt"), Var("starttime"), Var("stoptime")} ELSE {}
RunSpecTrees == UNION {{Bin(o, l, B), Bin(o, A, l), Bin(o, Bin(o, A, l), C), Bin(o, C, Bin(o, l, A))} : o \in Ops2 \cap Arith, l \in RunSpecLeaves}
\* every (outer, position, inner) nesting of two binary operators
Pairs == UNION {{Bin(o, i, C), Bin(o, C, i), Bin(o, i, Lit(<<2, 1>>)), Bin(o, Lit(<<2, 1>>), i)} : o \in Ops2, i \in UNION {Inner(o2) : o2 \in Ops2}}
\* unary / function wrappers around and inside binary operators
Wraps == {NegT(i) : i \in UNION {Inner(o) : o \in Ops2}}
         \cup {Bin(o, NegT(A), B) : o \in Ops2} \cup {Bin(o, A, NegT(B)) : o \in Ops2}
         \cup {Bin(o, NegT(Lit(<<2, 1>>)), B) : o \in Ops2} \cup {Bin(o, A, NegT(Lit(<<2, 1>>))) : o \in Ops2}      \* negative literals
         \cup {Bin(o, NegT(Lit(<<1, 2>>)), Lit(<<2, 1>>)) : o \in Ops2} \cup {Bin(p, C, Bin(o, NegT(Lit(<<3, 1>>)), Lit(<<2, 1>>))) : o, p \in Ops2 \cap Arith}
         \cup {F1(f, i) : f \in Fn1F, i \in UNION {Inner(o) : o \in Ops2}}
         \cup {Bin(o, F1(f, A), B) : o \in Ops2, f \in Fn1F} \cup {Bin(o, A, F1(f, B)) : o \in Ops2, f \in Fn1F}
         \cup {F2(f, i, C) : f \in Fn2, i \in UNION {Inner(o) : o \in Ops2}}
         \cup {F2(f, C, i) : f \in Fn2, i \in UNION {Inner(o) : o \in Ops2}}
         \cup {Bin(o, F2(f, A, B), C) : o \in Ops2, f \in Fn2} \cup {Bin(o, C, F2(f, A, B)) : o \in Ops2, f \in Fn2}
CmpT == {Bin(">", A, B), Bin("<=", A, C), Bin("<", B, C)}
Conds == CmpT \cup {Bin("and", x, y) : x, y \in CmpT} \cup {Bin("or", x, y) : x, y \in CmpT} \cup {NotT(x) : x \in CmpT}
        \cup {NotT(Bin("and", x, y)) : x, y \in CmpT}
        \* AND and OR mixed in one condition, every grouping
        \cup {Bin("or", Bin("and", x, y), z) : x, y, z \in CmpT} \cup {Bin("and", x, Bin("or", y, z)) : x, y, z \in CmpT}
        \cup {Bin("or", x, Bin("and", y, z)) : x, y, z \in CmpT} \cup {Bin("and", Bin("or", x, y), z) : x, y, z \in CmpT}
Ifs == {IfT(c, x, y) : c \in Conds, x \in {A, Bin("-", A, B)}, y \in {C, Bin("+", B, C)}}
       \cup {Bin(o, IfT(c, A, B), C) : o \in Ops2 \cap Arith, c \in CmpT} \cup {Bin(o, C, IfT(c, A, B)) : o \in Ops2 \cap Arith, c \in CmpT}
       \cup {Bin(o, c, A) : o \in {"+", "*", "-"}, c \in CmpT} \cup {Bin(o, A, c) : o \in {"+", "*", "-"}, c \in CmpT}
\* associativity chains of depth 3
Chains == UNION {{Bin(o, A, Bin(o, B, Bin(o, C, A))), Bin(o, Bin(o, Bin(o, A, B), C), A), Bin(o, Bin(o, A, B), Bin(o, C, A)),
                  Bin(o, A, Bin(p, B, Bin(o, C, A))), Bin(p, Bin(o, A, Bin(p, B, C)), A)} : o, p \in Ops2 \cap Arith}
RECURSIVE Depth(_)
Depth(n) == IF n = 0 THEN Leaves
            ELSE LET d == Depth(n - 1) IN d \cup {Bin(o, x, y) : o \in Ops2, x \in d, y \in d} \cup {NegT(x) : x \in d}
\* programs that bind a sub-expression object once (u = ...) and use the object in two further expressions:
\* both uses must have the value of their own tree, whatever the other use is
SharedSubs == UNION {Inner(o) : o \in Ops2 \cap Arith} \cup {NegT(A), F1("abs", Bin("-", A, B))}
UsesOf == {Bin(o, U, C) : o \in Ops2 \cap Arith} \cup {Bin(o, C, U) : o \in Ops2 \cap Arith}
          \cup {NegT(U), F1("abs", U), F2("max", U, C), Bin("-", Bin("+", U, C), A), Bin("-", A, Bin("-", U, C))}
Shared == {[k |-> "prog", u |-> s, e1 |-> x, e2 |-> y] : s \in SharedSubs, x \in UsesOf, y \in UsesOf}
Trees == CASE Family = "pairs" -> Pairs \cup Wraps \cup Ifs \cup RunSpecTrees
           [] Family = "chains" -> Chains
           [] Family = "depth2" -> Depth(2)
           [] Family = "shared" -> Shared

\* the core every reading of "supported grammar" contains: arithmetic operators, parentheses, unary minus, references, numbers
RECURSIVE IsCore(_)
IsCore(t) == CASE t.k \in {"var", "lit"} -> TRUE
               [] t.k = "neg" -> IsCore(t.x)
               [] t.k = "bin" -> t.op \in Arith /\ IsCore(t.l) /\ IsCore(t.r)
               [] OTHER -> FALSE

(******************************* enumeration *******************************)
Values(t) == [e \in DOMAIN Envs |-> Eval(t, Envs[e])]
WithU(env, s) == [n \in {"a", "b", "c", "u"} |-> IF n = "u" THEN Eval(s, env) ELSE env[n]]
OutProg(p) == [bind |-> PyText(p.u), py |-> PyText(p.e1), py2 |-> PyText(p.e2),
               val |-> [e \in DOMAIN Envs |-> Eval(p.e1, WithU(Envs[e], p.u))], val2 |-> [e \in DOMAIN Envs |-> Eval(p.e2, WithU(Envs[e], p.u))]]
Out(t) == IF t.k = "prog" THEN OutProg(t) ELSE
          [py |-> PyText(t), xmin |-> XText(t, "min"), xred |-> XText(t, "red"), xtight |-> XText(t, "tight"), val |-> Values(t), core |-> IsCore(t)]
Init == tree \in Trees /\ done = FALSE
Next == ~done /\ done' = TRUE /\ UNCHANGED tree
Emit == done => PrintT(ToJson(Out(tree)))
\* rendering sanity (anti-vacuity): for some environment the two groupings of a non-associative pair differ
Separates == \A o \in (Ops2 \cap {"-", "/", "**", "%"}) :
               \E e \in DOMAIN Envs : LET x == Eval(Bin(o, Bin(o, A, B), C), Envs[e])  y == Eval(Bin(o, A, Bin(o, B, C)), Envs[e])
                                      IN IsDef(x) /\ IsDef(y) /\ x # y
=============================================================================
