------------------------------ MODULE Session ------------------------------
(***************************************************************************)
(* One stepwise session of an SD scenario and its channels (C09).          *)
(*                                                                         *)
(* Reference model: constant k (scenario value K0), flow f = k, stock s    *)
(* with s(start) = 0 and s(t+dt) = s(t) + dt*f(t), stock u with the same   *)
(* flow whose initial value is the constant: u(start) = k(start).  Times   *)
(* and the stocks                                                          *)
(* are kept in quarter units (t4 = 4*t, s4 = 4*s) so that dt in            *)
(* {1, 1/2, 1/4} stays integral.                                           *)
(* The session is a clock: each step reports the requested equations at    *)
(* the clock time and advances it; run-step takes one step, run-steps n    *)
(* steps with the same settings, stream-steps all remaining steps.         *)
(* A setting given with a step holds from that step on (k at that time is  *)
(* the new value; the stock at that time was still integrated with the     *)
(* old one) and changes nothing that was reported before.                  *)
(* Every channel (batch run in df / dict / json, session API, REST) is a   *)
(* view of the same run: the harness projects each to rows [t, s, f, k]    *)
(* and compares them with rlog.                                            *)
(***************************************************************************)
EXTENDS Integers, Sequences, TLC, Json

CONSTANTS Start4, Dt4, N,     \* run spec in quarter units: stop = Start4 + N*Dt4
          K0, KVals,          \* scenario constant, menu for step settings (0 = none)
          Ops, L

VARIABLES i, k, s4, u4, rlog, hist
vars == <<i, k, s4, u4, rlog, hist>>

Row(j, sv, uv, kv) == [t4 |-> Start4 + j * Dt4, s4 |-> sv, u4 |-> uv, k |-> kv]
\* n steps with the same settings; beyond the stop time a step reports nothing and the clock stays
RECURSIVE Take(_, _, _, _, _, _)
Take(n, set, ii, kk, ss, uu) ==
    IF n = 0 THEN [i |-> ii, k |-> kk, s4 |-> ss, u4 |-> uu, rows |-> <<>>]
    ELSE IF ii > N THEN LET r == Take(n - 1, set, ii, kk, ss, uu) IN [r EXCEPT !.rows = << [msg |-> "Stoptime reached"] >> \o @]
    ELSE LET k2 == IF set > 0 THEN set ELSE kk
             u2 == IF ii = 0 THEN 4 * k2 ELSE uu          \* the initial value of u is the constant in force at the start time
             r == Take(n - 1, set, ii + 1, k2, ss + Dt4 * k2, u2 + Dt4 * k2)
         IN [r EXCEPT !.rows = << Row(ii, ss, u2, k2) >> \o @]
Real(rows) == SelectSeq(rows, LAMBDA r : "t4" \in DOMAIN r)
Do(op, n, set) ==
    LET r == Take(n, set, i, k, s4, u4) IN
    /\ i' = r.i /\ k' = r.k /\ s4' = r.s4 /\ u4' = r.u4
    /\ rlog' = rlog \o Real(r.rows)
    /\ hist' = Append(hist, [op |-> op, n |-> n, set |-> set, rows |-> r.rows, log |-> rlog'])

Step(set) == "Step" \in Ops /\ i <= N + 1 /\ Do("Step", 1, set)
Steps(n, set) == "Steps" \in Ops /\ i <= N /\ Do("Steps", n, set)
Stream(set) == "Stream" \in Ops /\ i <= N /\ Do("Stream", N + 1 - i, set)      \* until the stop time is reached
\* a batch run of the same scenario on the same bptk object before the session is begun: changes nothing
Batch == "Batch" \in Ops /\ hist = <<>> /\ Do("Batch", 0, 0)
\* the session is ended and a new one is begun on the same scenario: everything starts again from the scenario's values,
\* nothing of the first session's step settings is remembered
Restart == /\ "Restart" \in Ops /\ hist # <<>> /\ i > 0 /\ ~(\E j \in DOMAIN hist : hist[j].op = "Restart")
           /\ i' = 0 /\ k' = K0 /\ s4' = 0 /\ u4' = 0 /\ rlog' = <<>>
           /\ hist' = Append(hist, [op |-> "Restart", n |-> 0, set |-> 0, rows |-> <<>>, log |-> <<>>])
Init == i = 0 /\ k = K0 /\ s4 = 0 /\ u4 = 0 /\ rlog = <<>> /\ hist = <<>>
Next == Batch \/ Restart \/ (\E set \in KVals : Step(set)) \/ (\E n \in {2, 3}, set \in KVals : Steps(n, set)) \/ (\E set \in KVals : Stream(set))
Spec == Init /\ [][Next]_vars

\* what was reported is never changed afterwards: settings act on later steps only
AppendOnly == [][rlog' = <<>> \/ \E suffix \in {SubSeq(rlog', Len(rlog) + 1, Len(rlog'))} : rlog' = rlog \o suffix]_vars
\* one entry per grid point, in order, from the start time; never beyond the stop time
OnGrid == \A j \in 1..Len(rlog) : rlog[j].t4 = Start4 + (j - 1) * Dt4
WithinRun == Len(rlog) <= N + 1
\* the stock is the Euler integral of the constant that was in force on each interval
Euler == \A j \in 1..(Len(rlog) - 1) : rlog[j + 1].s4 = rlog[j].s4 + Dt4 * rlog[j].k
EulerU == \A j \in 1..(Len(rlog) - 1) : rlog[j + 1].u4 = rlog[j].u4 + Dt4 * rlog[j].k
InitialU == rlog # <<>> => rlog[1].u4 = 4 * rlog[1].k
View == <<i, k, s4, u4, rlog, hist = <<>>, \E j \in DOMAIN hist : hist[j].op = "Restart">>
Bound == Len(hist) <= L
Emit == (Len(hist) = L \/ i > N) => PrintT(ToJson(hist))
=============================================================================
