------------------------------ MODULE Server ------------------------------
(***************************************************************************)
(* The bptk_py REST server: instances with timeouts under a controlled     *)
(* clock, per-instance stepwise sessions of the reference SD model, the    *)
(* external state store (one file per instance), save/load, crash and      *)
(* restart, torn state files, and the bearer-token check.                  *)
(*                                                                         *)
(* Reference model (the bptk factory of the harness builds exactly this):  *)
(*   manager "sm", scenarios "base" (k = 1) and "high" (k = 5);            *)
(*   constant k, flow f = k, stock s with s(start) = 0,                    *)
(*   s(t+dt) = s(t) + dt*f(t); start = 1, dt = 1, stop = Stop.             *)
(*   Sessions request the equations s, f, k.                               *)
(*                                                                         *)
(* One action per REST request (the unit at which the properties speak);   *)
(* the interleaving of concurrent stepping requests is refined in          *)
(* StepLock.tla.  `hist' is the observation log (request + response).      *)
(* Dev = {} is the intended system; named members are known deviations of  *)
(* the implementation (see known_findings.json).                           *)
(* Properties: C15 C16 C17 C19 C20 (C09 for the session channel).          *)
(***************************************************************************)
EXTENDS Integers, Sequences, FiniteSets, TLC, Json

CONSTANTS Inst,       \* symbolic instance ids (the adapter maps them to real uuids)
          Timeouts,   \* menu of timeouts in ticks
          Ticks,      \* menu of clock increments
          KVals,      \* menu of values for the constant k in begin-session settings (0 = no setting)
          StepVals,   \* menu of values for k in run-step settings (0 = empty settings; no body is always offered)
          Scen,       \* scenarios of the reference manager used by sessions: subset of {"base", "high"}
          Stop,       \* stop time of the reference model
          MaxNow,     \* bound on the clock
          Ops,        \* enabled request kinds
          Adapter,    \* TRUE iff the server has an external state adapter
          Compress,   \* TRUE iff the adapter compresses the logs
          Kinds,      \* protected request kinds (route + method), supplied by the harness from the live URL map
          Creds,      \* credential shapes that do not contain the exact token as a word (absent, empty, wrong, ...)
          Dev,        \* named deviations
          L

VARIABLES now,     \* controlled clock (ticks)
          mem,     \* Inst -> Null | [last, to, kset, sess]      (InstanceManager._instances)
          store,   \* Inst -> Null | Torn | [to, sess]           (one state file per instance)
          ideal,   \* history: Inst -> what an uninterrupted instance would hold: Null | [kset, sess]
          known,   \* history: instances ever started and not stopped: Inst -> Null | [to, lastAcc]
          resp,    \* the last request with its response
          hist     \* observation log: all requests with their responses

vars == <<now, mem, store, ideal, known, resp, hist>>
core == <<now, mem, store, ideal, known, resp>>

Null == [none |-> TRUE]
Torn == [torn |-> TRUE]
K0(sc) == IF sc = "base" THEN 1 ELSE 5
KSet0 == [sc \in {"base", "high"} |-> K0(sc)]
NoSess == [none |-> TRUE]

\* --- the reference session --------------------------------------------------------------------
\* lock: a stream-steps response of this session is open (the advisory lock of StepLock.tla is held); sset: its settings
NewSess(sc, k) == [sc |-> sc, clock |-> 1, k |-> k, s |-> 0, live |-> FALSE, slog |-> <<>>, rlog |-> <<>>, lock |-> FALSE, sset |-> 0]
Locked(m, i) == m[i] # Null /\ m[i].sess # NoSess /\ m[i].sess.lock
Row(c, s, k) == [t |-> c, s |-> s, f |-> k, k |-> k]
\* one step, intended semantics: a setting takes effect at this step and stays
StepI(ss, set) ==
    IF ss.clock > Stop THEN [ss |-> ss, row |-> [msg |-> "Stoptime reached"]]
    ELSE LET k2 == IF set > 0 THEN set ELSE ss.k
         IN [ss |-> [ss EXCEPT !.k = k2, !.live = TRUE, !.clock = @ + 1, !.s = ss.s + k2,
                               !.slog = Append(@, set), !.rlog = Append(@, Row(ss.clock, ss.s, k2))],
             row |-> Row(ss.clock, ss.s, k2)]
\* the implementation after a restore (D16b): a fresh simulation is built from the scenario's constants
\* of a fresh bptk plus this step's settings; the stock history is recomputed from the start with the
\* scenario's constant of that fresh bptk
StepF(ss, set, kscen) ==
    IF ss.live \/ "D16b_no_replay" \notin Dev \/ ss.clock > Stop THEN StepI(ss, set)
    ELSE LET k2 == IF set > 0 THEN set ELSE kscen
             sNow == (ss.clock - 1) * kscen        \* a step evaluates the time before it with the values in force before its settings
         IN [ss |-> [ss EXCEPT !.k = k2, !.live = TRUE, !.clock = @ + 1, !.s = sNow + k2,
                               !.slog = Append(@, set), !.rlog = Append(@, Row(ss.clock, sNow, k2))],
             row |-> Row(ss.clock, sNow, k2)]

\* --- timeouts ---------------------------------------------------------------------------------
Expired(m, i, t) == m[i] # Null /\ t >= m[i].last + m[i].to
Sweep(m, t) == [i \in Inst |-> IF Expired(m, i, t) THEN Null ELSE m[i]]
Touch(m, i, t) == [m EXCEPT ![i].last = t]
Readable(i) == store[i] # Null /\ store[i] # Torn
\* _ensure_instance_exists: lazy restore from the adapter (timestamp := now; a fresh bptk: scenario
\* constants are the factory's unless the restore re-applies them)
Restored(i) == [last |-> now, to |-> store[i].to,
                kset |-> IF "D16b_no_replay" \in Dev THEN KSet0 ELSE store[i].kset,
                sess |-> IF store[i].sess = NoSess THEN NoSess
                         ELSE [store[i].sess EXCEPT !.live = FALSE,
                                  \* D15: the compressed format keeps one value list per constant; steps without settings vanish
                                  !.slog = IF Compress /\ "D15_compress_lossy" \in Dev THEN SelectSeq(@, LAMBDA v : v > 0) ELSE @]]
Ensure(m, i) == IF m[i] # Null THEN m ELSE IF Adapter /\ Readable(i) THEN [m EXCEPT ![i] = Restored(i)] ELSE m
Exists(i) == Ensure(mem, i)[i] # Null
\* get_instance: touch, then sweep
Access(m, i) == Sweep(Touch(m, i, now), now)
\* (the advisory lock of an open stream is not part of the externalised state)
Externalise(m, i) == [to |-> m[i].to, kset |-> m[i].kset, sess |-> IF m[i].sess = NoSess THEN NoSess ELSE [m[i].sess EXCEPT !.lock = FALSE]]
Saved(st, m, i) == IF Adapter /\ m[i] # Null THEN [st EXCEPT ![i] = Externalise(m, i)] ELSE st
SeenAcc(i) == known' = [known EXCEPT ![i] = [@ EXCEPT !.lastAcc = now]]

\* The statement does not say what an access to an expired, not yet swept instance does when nothing was
\* externalised (the implementation revives it): such requests are outside the specification.
SelfAccessOK(i) == Adapter \/ mem[i] = Null \/ ~Expired(mem, i, now)

Log(rec) == resp' = rec /\ hist' = IF L = 0 THEN hist ELSE Append(hist, rec)    \* L = 0: exhaustive configurations carry no log
Alive(m) == {i \in Inst : m[i] # Null}
Steps(m) == [i \in Alive(m) |-> IF m[i].sess = NoSess THEN 0 ELSE m[i].sess.clock]

(********************************* requests *********************************)
Start(i, to) ==     \* POST /start-instance {timeout}
    /\ "Start" \in Ops /\ known[i] = Null /\ mem[i] = Null
    /\ mem' = [Sweep(mem, now) EXCEPT ![i] = [last |-> now, to |-> to, kset |-> KSet0, sess |-> NoSess]]
    /\ known' = [known EXCEPT ![i] = [to |-> to, lastAcc |-> now, lost |-> FALSE]]
    /\ ideal' = [ideal EXCEPT ![i] = [kset |-> KSet0, sess |-> NoSess]]
    /\ UNCHANGED <<now, store>>
    /\ Log([op |-> "Start", i |-> i, to |-> to, status |-> 200, alive |-> Alive(mem')])

StartMany(I, to) ==  \* POST /start-instances {instances: n, timeout}: n independent instances at once
    /\ "StartMany" \in Ops /\ Cardinality(I) = 2 /\ \A i \in I : known[i] = Null /\ mem[i] = Null
    /\ mem' = [i \in Inst |-> IF i \in I THEN [last |-> now, to |-> to, kset |-> KSet0, sess |-> NoSess] ELSE Sweep(mem, now)[i]]
    /\ known' = [i \in Inst |-> IF i \in I THEN [to |-> to, lastAcc |-> now, lost |-> FALSE] ELSE known[i]]
    /\ ideal' = [i \in Inst |-> IF i \in I THEN [kset |-> KSet0, sess |-> NoSess] ELSE ideal[i]]
    /\ UNCHANGED <<now, store>>
    /\ Log([op |-> "StartMany", is |-> I, to |-> to, status |-> 200, alive |-> Alive(mem')])

Begin(i, sc, kv) ==  \* POST /<i>/begin-session (settings: constant k := kv unless kv = 0)
    /\ "Begin" \in Ops /\ known[i] # Null /\ SelfAccessOK(i) /\ ~Locked(mem, i)
    /\ IF ~Exists(i)
       THEN /\ UNCHANGED <<mem, store, ideal, known>>
            /\ Log([op |-> "Begin", i |-> i, sc |-> sc, kv |-> kv, status |-> 500])
       ELSE LET m1 == Ensure(mem, i)
                ks == IF kv > 0 THEN [m1[i].kset EXCEPT ![sc] = kv] ELSE m1[i].kset
                m2 == Access([m1 EXCEPT ![i].kset = ks, ![i].sess = NewSess(sc, ks[sc])], i)
                iks == IF kv > 0 THEN [ideal[i].kset EXCEPT ![sc] = kv] ELSE ideal[i].kset
            IN /\ mem' = m2
               /\ store' = IF "D21_begin_not_saved" \in Dev THEN store ELSE Saved(store, m2, i)
               /\ ideal' = [ideal EXCEPT ![i] = [kset |-> iks, sess |-> NewSess(sc, iks[sc])]]
               /\ SeenAcc(i)
               /\ Log([op |-> "Begin", i |-> i, sc |-> sc, kv |-> kv, status |-> 200])
    /\ UNCHANGED now

End(i) ==            \* POST /<i>/end-session
    /\ "End" \in Ops /\ known[i] # Null /\ SelfAccessOK(i) /\ ~Locked(mem, i)
    /\ IF ~Exists(i)
       THEN /\ UNCHANGED <<mem, store, ideal, known>> /\ Log([op |-> "End", i |-> i, status |-> 500])
       ELSE LET m2 == Access([Ensure(mem, i) EXCEPT ![i].sess = NoSess], i)
            IN /\ mem' = m2
               /\ store' = IF "D21_begin_not_saved" \in Dev THEN store ELSE Saved(store, m2, i)
               /\ ideal' = [ideal EXCEPT ![i].sess = NoSess]
               /\ SeenAcc(i)
               /\ Log([op |-> "End", i |-> i, status |-> 200])
    /\ UNCHANGED now

Step(i, set) ==      \* POST /<i>/run-step  (set > 0: settings k := set; 0: empty settings; -1: no body)
    /\ "Step" \in Ops /\ known[i] # Null /\ SelfAccessOK(i)
    /\ IF ~Exists(i)
       THEN /\ UNCHANGED <<mem, store, ideal, known>> /\ Log([op |-> "Step", i |-> i, set |-> set, status |-> 500])
       ELSE LET m1 == Ensure(mem, i) IN
            IF m1[i].sess = NoSess
            THEN /\ mem' = Access(m1, i) /\ store' = Saved(store, Access(m1, i), i)   \* nothing ran; the (session-less) instance is externalised
                 /\ UNCHANGED ideal /\ SeenAcc(i)
                 /\ Log([op |-> "Step", i |-> i, set |-> set, status |-> 500])
            ELSE IF m1[i].sess.lock                                               \* a stream of this instance is open: refused (C18)
            THEN /\ mem' = Access(m1, i) /\ UNCHANGED <<store, ideal>> /\ SeenAcc(i)
                 /\ Log([op |-> "Step", i |-> i, set |-> set, status |-> 500, locked |-> TRUE])
            ELSE LET sv == IF set > 0 THEN set ELSE 0
                     r == StepF(m1[i].sess, sv, m1[i].kset[m1[i].sess.sc])
                     m2 == Access([m1 EXCEPT ![i].sess = r.ss], i)
                     ri == IF ideal[i].sess = NoSess THEN [ss |-> NoSess, row |-> [msg |-> "no session"]]
                           ELSE StepI(ideal[i].sess, sv)
                 IN /\ mem' = m2 /\ store' = Saved(store, m2, i)
                    /\ ideal' = [ideal EXCEPT ![i].sess = ri.ss]
                    /\ SeenAcc(i)
                    /\ Log([op |-> "Step", i |-> i, set |-> set, status |-> 200, row |-> r.row, want |-> ri.row,
                            clock |-> IF ri.ss = NoSess THEN 0 ELSE ri.ss.clock, slog |-> IF ri.ss = NoSess THEN <<>> ELSE ri.ss.slog,
                            slogF |-> r.ss.slog])
    /\ UNCHANGED now

\* n steps with the same settings (POST /<i>/run-steps {numberSteps, settings})
RECURSIVE Many(_, _, _, _, _)
Many(ss, n, sv, kscen, acc) ==
    IF n = 0 THEN [ss |-> ss, rows |-> acc]
    ELSE LET r == StepF(ss, sv, kscen) IN Many(r.ss, n - 1, sv, kscen, Append(acc, r.row))
RECURSIVE ManyI(_, _, _, _)
ManyI(ss, n, sv, acc) ==
    IF n = 0 THEN [ss |-> ss, rows |-> acc]
    ELSE LET r == StepI(ss, sv) IN ManyI(r.ss, n - 1, sv, Append(acc, r.row))

StepsN(i, n, set) ==
    /\ "Steps" \in Ops /\ known[i] # Null /\ SelfAccessOK(i)
    /\ IF ~Exists(i)
       THEN /\ UNCHANGED <<mem, store, ideal, known>> /\ Log([op |-> "Steps", i |-> i, n |-> n, set |-> set, status |-> 500])
       ELSE LET m1 == Ensure(mem, i) IN
            IF m1[i].sess = NoSess
            THEN /\ mem' = Access(m1, i) /\ store' = Saved(store, Access(m1, i), i)
                 /\ UNCHANGED ideal /\ SeenAcc(i)
                 /\ Log([op |-> "Steps", i |-> i, n |-> n, set |-> set, status |-> 200,
                         rows |-> [k \in 1..n |-> [msg |-> "null"]], want |-> [k \in 1..n |-> [msg |-> "null"]]])
            ELSE IF m1[i].sess.lock
            THEN /\ mem' = Access(m1, i) /\ UNCHANGED <<store, ideal>> /\ SeenAcc(i)
                 /\ Log([op |-> "Steps", i |-> i, n |-> n, set |-> set, status |-> 500, locked |-> TRUE])
            ELSE LET r == Many(m1[i].sess, n, set, m1[i].kset[m1[i].sess.sc], <<>>)
                     m2 == Access([m1 EXCEPT ![i].sess = r.ss], i)
                     ri == IF ideal[i].sess = NoSess THEN [ss |-> NoSess, rows |-> <<>>] ELSE ManyI(ideal[i].sess, n, set, <<>>)
                 IN /\ mem' = m2 /\ store' = Saved(store, m2, i)
                    /\ ideal' = [ideal EXCEPT ![i].sess = ri.ss]
                    /\ SeenAcc(i)
                    /\ Log([op |-> "Steps", i |-> i, n |-> n, set |-> set, status |-> 200, rows |-> r.rows, want |-> ri.rows,
                            clock |-> IF ri.ss = NoSess THEN 0 ELSE ri.ss.clock, slog |-> IF ri.ss = NoSess THEN <<>> ELSE ri.ss.slog,
                            slogF |-> r.ss.slog])
    /\ UNCHANGED now

\* POST /<i>/stream-steps, at the granularity a client sees it: the response is opened (the session is locked, the first
\* result is produced), further results are produced one by one as the client reads them, and the response ends or the
\* client goes away (the lock is released).  Between these steps the server serves other requests.
StreamOpen(i, set) ==
    /\ "Stream" \in Ops /\ known[i] # Null /\ mem[i] # Null /\ ~Expired(mem, i, now)
    /\ mem[i].sess # NoSess /\ mem[i].sess.clock <= Stop /\ ideal[i].sess # NoSess
    /\ IF mem[i].sess.lock
       THEN /\ mem' = Access(mem, i) /\ UNCHANGED <<store, ideal>> /\ SeenAcc(i)
            /\ Log([op |-> "StreamOpen", i |-> i, set |-> set, status |-> 500, locked |-> TRUE])
       ELSE LET r == StepF(mem[i].sess, set, mem[i].kset[mem[i].sess.sc])
                ri == StepI(ideal[i].sess, set)
            IN /\ mem' = Access([mem EXCEPT ![i].sess = [r.ss EXCEPT !.lock = TRUE, !.sset = set]], i)
               /\ ideal' = [ideal EXCEPT ![i].sess = [ri.ss EXCEPT !.lock = TRUE, !.sset = set]]
               /\ UNCHANGED store /\ SeenAcc(i)
               /\ Log([op |-> "StreamOpen", i |-> i, set |-> set, status |-> 200, row |-> r.row, want |-> ri.row])
    /\ UNCHANGED now
StreamNext(i) ==
    /\ "Stream" \in Ops /\ Locked(mem, i) /\ mem[i].sess.clock <= Stop
    /\ LET r == StepF(mem[i].sess, mem[i].sess.sset, mem[i].kset[mem[i].sess.sc])
           ri == StepI(ideal[i].sess, ideal[i].sess.sset)
       IN /\ mem' = [mem EXCEPT ![i].sess = r.ss] /\ ideal' = [ideal EXCEPT ![i].sess = ri.ss]
          /\ Log([op |-> "StreamNext", i |-> i, status |-> 200, row |-> r.row, want |-> ri.row])
    /\ UNCHANGED <<now, store, known>>
StreamClose(i) ==
    /\ "Stream" \in Ops /\ Locked(mem, i)
    /\ mem' = [mem EXCEPT ![i].sess.lock = FALSE] /\ ideal' = [ideal EXCEPT ![i].sess.lock = FALSE]
    /\ store' = Saved(store, mem', i)              \* however the stream ends, what it produced is externalised
    /\ UNCHANGED <<now, known>>
    /\ Log([op |-> "StreamClose", i |-> i, status |-> 200, ended |-> mem[i].sess.clock > Stop])

Results(i) ==        \* GET /<i>/session-results
    /\ "Results" \in Ops /\ known[i] # Null /\ SelfAccessOK(i)
    /\ IF ~Exists(i)
       THEN /\ UNCHANGED <<mem, store, ideal, known>> /\ Log([op |-> "Results", i |-> i, status |-> 500])
       ELSE LET m1 == Ensure(mem, i)
            IN /\ mem' = Access(m1, i) /\ UNCHANGED <<store, ideal>> /\ SeenAcc(i)
               /\ Log([op |-> "Results", i |-> i, status |-> 200,
                       rows |-> IF m1[i].sess = NoSess THEN <<>> ELSE m1[i].sess.rlog,
                       want |-> IF ideal[i].sess = NoSess THEN <<>> ELSE ideal[i].sess.rlog,
                       clock |-> IF ideal[i].sess = NoSess THEN 0 ELSE ideal[i].sess.clock,
                       slog |-> IF ideal[i].sess = NoSess THEN <<>> ELSE ideal[i].sess.slog,
                       slogF |-> IF m1[i].sess = NoSess THEN <<>> ELSE m1[i].sess.slog])
    /\ UNCHANGED now

KeepAlive(i) ==      \* POST /<i>/keep-alive
    /\ "KeepAlive" \in Ops /\ known[i] # Null /\ SelfAccessOK(i)
    /\ IF ~Exists(i)
       THEN /\ UNCHANGED <<mem, store, ideal, known>> /\ Log([op |-> "KeepAlive", i |-> i, status |-> 500])
       ELSE /\ mem' = Access(Ensure(mem, i), i) /\ UNCHANGED <<store, ideal>> /\ SeenAcc(i)
            /\ Log([op |-> "KeepAlive", i |-> i, status |-> 200])
    /\ UNCHANGED now

StopInst(i) ==       \* POST /<i>/stop-instance : forget the instance and its external state
    /\ "Stop" \in Ops /\ known[i] # Null /\ ~Locked(mem, i)
    /\ mem' = [mem EXCEPT ![i] = Null] /\ store' = [store EXCEPT ![i] = Null]
    /\ known' = [known EXCEPT ![i] = Null] /\ ideal' = [ideal EXCEPT ![i] = Null]
    /\ UNCHANGED now
    /\ Log([op |-> "Stop", i |-> i, status |-> 200])

Metrics ==           \* GET /full-metrics : sweep, then report
    /\ "Metrics" \in Ops
    /\ mem' = Sweep(mem, now) /\ UNCHANGED <<now, store, ideal, known>>
    /\ Log([op |-> "Metrics", status |-> 200, alive |-> Alive(mem'), steps |-> Steps(mem')])

Tick(d) ==
    /\ "Tick" \in Ops /\ now + d <= MaxNow
    /\ now' = now + d /\ UNCHANGED <<mem, store, ideal, known>>
    /\ Log([op |-> "Tick", d |-> d, now |-> now'])

SaveState ==         \* GET /save-state : an instance whose session is locked (an open stream) is left to the request that holds
                     \* the lock - it externalises the session when it ends (StepLock.tla: /save-state takes the lock, too)
    /\ "SaveState" \in Ops /\ Adapter
    /\ store' = [i \in Inst |-> IF mem[i] # Null /\ ~Locked(mem, i) THEN Externalise(mem, i) ELSE store[i]]
    /\ UNCHANGED <<now, mem, ideal, known>>
    /\ Log([op |-> "SaveState", status |-> 200, saved |-> Alive(mem)])

LoadState ==         \* POST /load-state : every readable file replaces the instance in memory
    /\ "LoadState" \in Ops /\ Adapter
    /\ mem' = [i \in Inst |-> IF Readable(i) THEN Restored(i) ELSE mem[i]]
    /\ UNCHANGED <<now, store, ideal, known>>
    /\ Log([op |-> "LoadState", status |-> 200, alive |-> Alive(mem')])

Crash ==             \* the process is lost; a new server is started on the same external state
    /\ "Crash" \in Ops /\ Adapter /\ \A i \in Inst : ~Locked(mem, i)
    /\ mem' = [i \in Inst |-> IF Readable(i) THEN Restored(i) ELSE Null]
    /\ known' = [i \in Inst |-> IF Readable(i) THEN [known[i] EXCEPT !.lastAcc = now]
                                ELSE IF known[i] # Null THEN [known[i] EXCEPT !.lost = TRUE] ELSE known[i]]   \* never externalised or damaged: lost
    /\ UNCHANGED <<now, store, ideal>>
    /\ Log([op |-> "Crash", up |-> TRUE, alive |-> Alive(mem')])

\* The process is lost while run-step of i externalises its result: somewhere between the first byte of the new state
\* written (frac: "none" | "part" | "full" of the text is on disk) and its installation.  The new state is installed by an
\* atomic rename AFTER it was written completely, so whatever the loss leaves behind is not the state of i: the new server
\* works from the last installed state, the unanswered step never happened, and the leftover has no effect on any later
\* request or save (it is logged for the harness only).
StepLost(i, set, frac) ==
    /\ "StepLost" \in Ops /\ Adapter /\ known[i] # Null /\ SelfAccessOK(i)
    /\ Exists(i) /\ Ensure(mem, i)[i].sess # NoSess /\ \A j \in Inst : ~Locked(mem, j)
    /\ Readable(i)
    /\ mem' = [j \in Inst |-> IF Readable(j) THEN Restored(j) ELSE Null]
    /\ known' = [j \in Inst |-> IF Readable(j) THEN [known[j] EXCEPT !.lastAcc = now]
                                ELSE IF known[j] # Null THEN [known[j] EXCEPT !.lost = TRUE] ELSE known[j]]
    /\ UNCHANGED <<now, store, ideal>>
    /\ Log([op |-> "StepLost", i |-> i, set |-> set, frac |-> frac, alive |-> Alive(mem')])

Tear(i) ==           \* the state file of i is damaged (torn write)
    /\ "Tear" \in Ops /\ Adapter /\ Readable(i)
    /\ store' = [store EXCEPT ![i] = Torn]
    /\ UNCHANGED <<now, mem, ideal, known>>
    /\ Log([op |-> "Tear", i |-> i])

\* C15: the server is configured with a bearer token; a request to a protected endpoint that does not present
\* the token is refused and changes nothing (all other requests in this module carry the right token)
Refused(kind, i, cred) ==
    /\ "Refused" \in Ops
    /\ UNCHANGED <<now, mem, store, ideal, known>>
    /\ Log([op |-> "Refused", kind |-> kind, i |-> i, cred |-> cred, status |-> 401])

Init == /\ now = 0 /\ mem = [i \in Inst |-> Null] /\ store = [i \in Inst |-> Null]
        /\ ideal = [i \in Inst |-> Null] /\ known = [i \in Inst |-> Null] /\ hist = <<>> /\ resp = [op |-> "Init"]

DoStart == (\E i \in Inst, to \in Timeouts : Start(i, to)) \/ (\E I \in SUBSET Inst, to \in Timeouts : StartMany(I, to))
DoBegin == \E i \in Inst, sc \in Scen, kv \in KVals : Begin(i, sc, kv)
DoEnd   == \E i \in Inst : End(i)
DoStep  == \E i \in Inst, set \in (StepVals \cup {0 - 1}) : Step(i, set)
DoSteps == \E i \in Inst, n \in {2, 3}, set \in StepVals : StepsN(i, n, set)
DoStream == \E i \in Inst : (\E set \in StepVals : StreamOpen(i, set)) \/ StreamNext(i) \/ StreamClose(i)
DoResults == \E i \in Inst : Results(i)
DoKeepAlive == \E i \in Inst : KeepAlive(i)
DoStop  == \E i \in Inst : StopInst(i)
DoTick  == \E d \in Ticks : Tick(d)
DoTear  == \E i \in Inst : Tear(i) \/ (\E set \in (StepVals \cup {0 - 1}), frac \in {"none", "part", "full"} : StepLost(i, set, frac))
DoRefused == \E kind \in Kinds, i \in Inst, cred \in Creds : Refused(kind, i, cred)
Next == DoStart \/ DoBegin \/ DoEnd \/ DoStep \/ DoSteps \/ DoStream \/ DoResults \/ DoKeepAlive \/ DoStop \/ Metrics \/ DoTick
        \/ SaveState \/ LoadState \/ Crash \/ DoTear \/ DoRefused
Spec == Init /\ [][Next]_vars

(******************************** properties ********************************)
LastResp == resp
\* C17 lower bound: available while less than the timeout has elapsed since creation / last access
\* (an instance whose only copy was a damaged state file lost in a crash is excused)
Lost(i) == mem[i] = Null /\ ~(Adapter /\ Readable(i))
AliveOK == \A i \in Inst : (known[i] # Null /\ ~known[i].lost /\ now - known[i].lastAcc < known[i].to)
                             => (mem[i] # Null \/ (Adapter /\ store[i] # Null))
\* C17 upper bound: right after a sweep-triggering request nothing expired stays in memory
SweepOps == {"Start", "StartMany", "Begin", "End", "Step", "Steps", "Results", "KeepAlive", "Metrics"}
GoneOK == (LastResp.op \in SweepOps /\ LastResp.status = 200)
            => \A i \in Inst : mem[i] # Null => now < mem[i].last + mem[i].to
\* C20 / C19: whatever happened (sweeps, restores, crashes), a step answers what the uninterrupted
\* session would answer, and the served results are the uninterrupted session's results
Continuity == (LastResp.op \in {"Step", "Steps", "Results", "StreamOpen", "StreamNext"} /\ LastResp.status = 200)
                => IF LastResp.op \in {"Step", "StreamOpen", "StreamNext"} THEN LastResp.row = LastResp.want ELSE LastResp.rows = LastResp.want
\* C19: what is externalised is the in-memory session, losslessly
RoundTrip == \A i \in Inst : (Adapter /\ Readable(i) /\ mem[i] # Null /\ mem[i].sess # NoSess /\ store[i].sess # NoSess)
                               => (store[i].sess.clock <= mem[i].sess.clock)
\* C16: a request addressed to i changes no other instance (timeouts excepted: they depend on the clock only)
Isolated == [][\A i \in Inst : (resp'.op \in {"Begin", "End", "Step", "Steps", "Results", "KeepAlive", "Stop", "StreamOpen", "StreamNext", "StreamClose"}
                                /\ resp'.i # i /\ mem[i] # Null /\ ~Expired(mem, i, now))
                               => mem'[i] = mem[i] /\ store'[i] = store[i]]_vars

\* C15: a refused request changes no server-side state
AuthOK == [][resp'.op = "Refused" => (resp'.status >= 400 /\ UNCHANGED <<now, mem, store, ideal, known>>)]_vars

View == core
Bound == Len(hist) <= L
Emit == Len(hist) = L => PrintT(ToJson(hist))
=============================================================================
