----------------------------- MODULE TimeGrid -----------------------------
(***************************************************************************)
(* The simulated time grid (C05).  Times are decimal numbers with four     *)
(* digits, represented as integers scaled by 10^4, so start + i*dt is      *)
(* exact.  The state machine is the clock of a run / a stepwise session:   *)
(* it emits one label per grid point.  `Route' enumerates the arithmetic   *)
(* routes by which user code arrives at a grid time (i*dt, repeated        *)
(* addition, chains of t-dt from the stop time); all of them denote the    *)
(* same grid point, and the harness checks that the implementation agrees  *)
(* (same value, same memo cell).                                           *)
(***************************************************************************)
EXTENDS Integers, Sequences, TLC, Json

CONSTANTS Starts, Dts, Ns       \* menus, scaled by 10^4 (Ns: numbers of steps)

VARIABLES start, dt, n, i, labels
vars == <<start, dt, n, i, labels>>

Grid(s, d, k) == s + k * d

Init == /\ start \in Starts /\ dt \in Dts /\ n \in Ns
        /\ i = 0 /\ labels = << Grid(start, dt, 0) >>
\* one simulation / session step: the clock moves to the next grid point and reports it
Step == /\ i < n
        /\ i' = i + 1
        /\ labels' = Append(labels, Grid(start, dt, i + 1))
        /\ UNCHANGED <<start, dt, n>>
Next == Step
Spec == Init /\ [][Next]_vars

Increasing == \A k \in 1..(Len(labels) - 1) : labels[k] < labels[k + 1]
OnGrid == \A k \in 1..Len(labels) : labels[k] = start + (k - 1) * dt
NoGap == \A k \in 1..(Len(labels) - 1) : labels[k + 1] - labels[k] = dt
EndsAtStop == i = n => labels[Len(labels)] = start + n * dt /\ Len(labels) = n + 1
Emit == i = n => PrintT(ToJson([start |-> start, dt |-> dt, n |-> n, stop |-> Grid(start, dt, n), labels |-> labels]))
=============================================================================
