#!/bin/sh
# offline setup: syntax-check every specification module with SANY; nothing is fetched.
cd "$(dirname "$0")" || exit 2
rc=0
for f in spec/*.tla; do
  java -cp /opt/veriftools/tla/tla2tools.jar:/opt/veriftools/tla/CommunityModules-deps.jar -DTLA-Library=spec tla2sany.SANY "$f" > /tmp/sany.$$ 2>&1 || rc=1
  if grep -q -E "Semantic errors|Fatal errors|Could not parse|\*\*\* Errors" /tmp/sany.$$; then echo "SANY failed on $f"; cat /tmp/sany.$$; rc=1; fi
done
rm -f /tmp/sany.$$
/venv/bin/python -c "import sys; sys.path.insert(0,'/repo'); import BPTK_Py" 2>/dev/null || { echo "cannot import BPTK_Py"; rc=1; }
mkdir -p evidence cache
/venv/bin/python harness/warm.py || rc=1
exit $rc
