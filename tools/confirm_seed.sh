#!/bin/sh
# tools/confirm_seed.sh <prop id> <patch file> <demo file> <out json>
# independent confirmation of a seeded change in a scratch worktree of /repo HEAD:
# demo passes without the patch, fails with it; the repository's suite still passes with it.
ID=$1; PATCH=$2; DEMO=$3; OUT=$4
WT=$(mktemp -d /tmp/confirm_wt.XXXXXX); rmdir "$WT"
git -C /repo worktree add --detach "$WT" HEAD >/dev/null 2>&1 || { echo "worktree failed"; exit 2; }
D1=$(mktemp -d); D2=$(mktemp -d)
( cd "$D1" && PYTHONPATH="$WT" timeout 600 /venv/bin/python "$DEMO" > "$D1/out.txt" 2>&1 ); RC_CLEAN=$?
APPLY=0; git -C "$WT" apply "$PATCH" >/dev/null 2>&1 || APPLY=1
( cd "$D2" && PYTHONPATH="$WT" timeout 600 /venv/bin/python "$DEMO" > "$D2/out.txt" 2>&1 ); RC_PATCHED=$?
( cd "$WT" && timeout 1500 /venv/bin/python -m pytest -q -p no:cacheprovider --timeout=900 tests > "$D2/suite.txt" 2>&1 )
SUITE=$(tail -1 "$D2/suite.txt")
FAILED=$(grep -E '^FAILED' "$D2/suite.txt" | tr '\n' ';')
python3 - "$ID" "$PATCH" "$RC_CLEAN" "$APPLY" "$RC_PATCHED" "$SUITE" "$FAILED" "$D2/out.txt" > "$OUT" <<'PY'
import json,sys
i,p,rc,ap,rp,suite,failed,outp=sys.argv[1:9]
print(json.dumps({"property":i,"patch":p,"demo_rc_unchanged":int(rc),"patch_applies":ap=="0","demo_rc_patched":int(rp),
  "suite_summary":suite,"suite_failed":failed,"demo_output_patched":open(outp).read()[-600:]},indent=1))
PY
git -C /repo worktree remove --force "$WT"; rm -rf "$D1" "$D2"
cat "$OUT" | head -12
