#!/usr/bin/env python3
"""tools/check_demos.py : for every active seeded change, run its demo in a scratch worktree of /repo HEAD without and with the patch;
prints the seeds for which (demo rc unpatched, git apply rc, demo rc patched) is not (0, 0, 1).  Run after every fix commit."""
import subprocess, concurrent.futures as cf, glob, json, os, tempfile, shutil
ids = sorted(os.path.basename(d) for d in glob.glob("/verif/seeded/C*"))
def one(sid):
    d = "/verif/seeded/" + sid
    meta = json.load(open(d + "/meta.json"))
    if meta.get("retired"): return sid, "retired"
    wt = tempfile.mkdtemp(prefix="demo_wt.", dir="/tmp"); os.rmdir(wt)
    subprocess.run(["git", "-C", "/repo", "worktree", "add", "--detach", wt, "HEAD"], capture_output=True)
    try:
        def demo():
            cwd = tempfile.mkdtemp()
            try:
                return subprocess.run(["/venv/bin/python", d + "/demo.py"], cwd=cwd, env=dict(os.environ, PYTHONPATH=wt), capture_output=True, timeout=600).returncode
            except subprocess.TimeoutExpired:
                return "timeout"
            finally:
                shutil.rmtree(cwd, ignore_errors=True)
        a = demo()
        ap = subprocess.run(["git", "-C", wt, "apply", d + "/patch.diff"], capture_output=True).returncode
        b = demo()
        return sid, (a, ap, b)
    finally:
        subprocess.run(["git", "-C", "/repo", "worktree", "remove", "--force", wt], capture_output=True)
with cf.ThreadPoolExecutor(8) as ex:
    for sid, r in ex.map(one, ids):
        if r != (0, 0, 1): print(sid, r, flush=True)
print("ALLDONE")
