#!/bin/sh
# tools/try_patch_wt.sh <patch> <prop id>...  like try_patch.sh but in a scratch worktree (VERIF_REPO), leaving /repo alone
P=$1; shift
WT=$(mktemp -d /tmp/exp_wt.XXXXXX); rmdir "$WT"
git -C /repo worktree add --detach "$WT" HEAD >/dev/null 2>&1 || { echo "worktree failed"; exit 2; }
git -C "$WT" apply "$P" || { echo "patch does not apply"; git -C /repo worktree remove --force "$WT"; exit 2; }
for id in "$@"; do
  VERIF_REPO="$WT" /verif/check $id --tier quick > /tmp/tryw_$id.out 2>&1; rc=$?
  echo "== $id rc=$rc"; grep -E "VIOLATION|KNOWN-FINDING|MACHINERY|violated clause|^OK" /tmp/tryw_$id.out | cut -c1-400 | head -6
done
git -C /repo worktree remove --force "$WT"
