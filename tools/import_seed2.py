#!/usr/bin/env python3
"""tools/import_seed2.py : copy the confirmed round-2 seeded changes (/tmp/seedout2/<prop>/) into /verif/seeded/<prop>-3 and -4"""
import json, os, shutil
NEEDS = {
 "C01-3": "sd.smooth called with the explicit initial value exactly 0.0 while the input at the start time is not 0",
 "C01-4": "a stock that already has an equation is given another equation (expression -> expression); the second assignment is silently ignored",
 "C02-3": "one sub-expression OBJECT used twice: once as the left operand of a further +/- (which marks it), once where grouping matters (right of -, operand of ** or %)",
 "C02-4": "a negative numeric literal as the base of ** with an element exponent of even value (number ** element was rejected before)",
 "C03-3": "a condition with AND followed later by OR without brackets (x AND y OR z) with x false and z true",
 "C03-4": "an XMILE stock with at least one inflow and at least TWO outflows (the generated net flow loses the brackets around the outflow sum)",
 "C04-3": "a dt whose decimal expansion does not terminate (<dt reciprocal=\"true\">3</dt>, 12, 6, 9)",
 "C04-4": "decimal dt and decimal stop whose float quotient lands just below an integer (0 -> 1.2, dt 0.1): the run loses its last grid point",
 "C05-3": "a decimal stop time for which (stop-start)/dt computes just below the integer (0 -> 1.2 with dt 0.1): the stop time is missing from the grid",
 "C05-4": "a cold, top-down evaluation (first evaluation on an empty memo at a late time) with a dt that is not a binary fraction",
 "C06-3": "a stepwise session over two scenarios of the same manager, step settings naming only the one registered first",
 "C06-4": "XMILE model with a graphical function, manager loaded from ONE scenario file with two scenarios, one overriding the points, the sibling not",
 "C07-3": "REST /run with a settings entry containing only runspecs (dt or starttime) after an earlier run of the same scenario in the same process",
 "C07-4": "a run-spec override whose value is exactly 0 (starttime 0 for a model that starts at 1)",
 "C08-3": "a scenario whose constant is a stochastic definition, run twice with different equation lists without a cache reset",
 "C08-4": "the memo filled only through Element.plot since the last reset, then an edit of an input, then a read of a dependent",
 "C09-3": "a batch run of the scenario on the same bptk object before begin_session, then a run_step with settings, then further steps",
 "C09-4": "settings passed with the very first step that change a constant used as the initial value of a stock",
 "C10-3": "a matrix whose size was asked for once is then widened (same number of rows) and used again",
 "C10-4": "a named arrayed STOCK whose names are declared in another order than those of the first operand of its equation",
 "C11-3": "an event still in flight, then configure_agents, then a new population large enough for the old receiver id to be reused",
 "C11-4": "an agent list that is not in id order (an agent creating child agents in its own initialize())",
 "C12-3": "a run with data collection switched off and dt < 1 (or stop time 0)",
 "C12-4": "a step that ends with no live agents",
 "C13-3": "an agent deleted while a step is running (from act, a handler or end_round)",
 "C13-4": "statistics collected twice for an already recorded time (run_step repeated by hand, or run() followed by run_step inside the horizon)",
 "C14-3": "a model that already has agents is configured a second time and an id issued before is then looked up",
 "C14-4": "reset() with two or more agent types, then agents created directly without configure_agents",
 "C15-3": "an anonymous request dispatched while an authorised request is still inside its handler on another thread",
 "C15-4": "a credential that is a contiguous fragment of the configured token (prefix, suffix, single character, empty)",
 "C16-3": "scenarios defined in a JSON file in scenarios/, two instances in one process, A begins a session with settings, B uses the same scenario",
 "C16-4": "instance B receives a run-step while instance A's stream-steps response is still open",
 "C17-3": "an instance with an open session over two managers whose scenario-name sets differ, then its timeout elapses (destroy raises inside the sweep)",
 "C17-4": "two sweep-triggering requests less than 1 s apart with another instance's expiry instant between them",
 "C18-3": "a run-step with Content-Type application/json and a malformed body, then any stepping request on that instance",
 "C18-4": "the first two stepping requests a fresh instance ever sees, concurrent, with two preemptions inside a 3-line window of try_lock",
 "C19-3": "a session of 10 or more steps (step times that sort differently as strings than as numbers), then a restore, then an order-sensitive read",
 "C19-4": "a time grid with more than 2 decimals (dt = 0.125) plus a restore",
 "C20-3": "begin, steps, end-session, then the server lost before the next begin-session, then a restart",
 "C20-4": "FileAdapter(compress=True), an instance externalised before it has a session, then a restart",
}
for i in range(1, 21):
    prop = "C%02d" % i
    src = "/tmp/seedout2/%s" % prop
    for suf, n in (("", 3), ("2", 4)):
        sid = "%s-%d" % (prop, n)
        dst = "/verif/seeded/" + sid
        os.makedirs(dst, exist_ok=True)
        shutil.copy("%s/patch%s.diff" % (src, suf), dst + "/patch.diff")
        shutil.copy("%s/demo%s.py" % (src, suf), dst + "/demo.py")
        conf = json.load(open("%s/confirm%s.json" % (src, suf)))
        meta_p = dst + "/meta.json"
        meta = json.load(open(meta_p)) if os.path.exists(meta_p) else {}
        meta.update({"property": prop, "round": 2,
                     "origin": "independent sub-agent given only the property record, the kinds of change already collected and a scratch worktree; asked for a change that needs something specific to manifest",
                     "rebased_onto_fix_commits": False,
                     "confirmed": {"how": "tools/confirm_seed.sh in a scratch worktree of /repo HEAD: demo on unchanged tree, demo with patch, full pytest suite with patch",
                                   "demo_rc_unchanged": conf["demo_rc_unchanged"], "demo_rc_patched": conf["demo_rc_patched"],
                                   "suite_with_patch": conf["suite_summary"], "suite_failed": conf["suite_failed"]},
                     "needs_to_manifest": NEEDS[sid]})
        meta.setdefault("detected_by", None)
        json.dump(meta, open(meta_p, "w"), indent=1)
        if suf == "":
            shutil.copy(src + "/notes.md", dst + "/notes.md")
        else:
            shutil.copy(src + "/notes.md", dst + "/notes.md")
print("imported")
