#!/usr/bin/env python3
"""tools/import_seed.py <prop> <n> [--patch file]  : copy a confirmed seeded change into /verif/seeded/<prop>-<n>/"""
import json, os, shutil, sys, re
prop, n = sys.argv[1], sys.argv[2]
patch = None
if "--patch" in sys.argv:
    patch = sys.argv[sys.argv.index("--patch") + 1]
src = "/tmp/seedout/%s" % prop
suf = "" if n == "1" else n
dst = "/verif/seeded/%s-%s" % (prop, n)
os.makedirs(dst, exist_ok=True)
shutil.copy(patch or os.path.join(src, "patch%s.diff" % suf), os.path.join(dst, "patch.diff"))
shutil.copy(os.path.join(src, "demo%s.py" % suf), os.path.join(dst, "demo.py"))
conf = {}
cj = os.path.join(src, "confirm%s.json" % suf)
if os.path.exists(cj):
    conf = json.load(open(cj))
notes = open(os.path.join(src, "notes.md")).read() if os.path.exists(os.path.join(src, "notes.md")) else ""
meta_p = os.path.join(dst, "meta.json")
meta = json.load(open(meta_p)) if os.path.exists(meta_p) else {}
meta.update({"property": prop, "origin": "independent sub-agent given only the property record and a scratch worktree",
             "rebased_onto_fix_commits": bool(patch),
             "confirmed": {"how": "tools/confirm_seed.sh in a scratch worktree of /repo HEAD: demo on unchanged tree, demo with patch, full pytest suite with patch",
                           "demo_rc_unchanged": conf.get("demo_rc_unchanged"), "demo_rc_patched": conf.get("demo_rc_patched"),
                           "suite_with_patch": conf.get("suite_summary"), "suite_failed": conf.get("suite_failed")}})
meta.setdefault("needs_to_manifest", "")
meta.setdefault("detected_by", None)
json.dump(meta, open(meta_p, "w"), indent=1)
with open(os.path.join(dst, "notes.md"), "w") as f:
    f.write(notes)
print(dst, conf.get("demo_rc_unchanged"), conf.get("demo_rc_patched"), conf.get("suite_summary"))
