#!/bin/sh
# tools/try_patch.sh <patch> <prop id>...   apply a seeded change to /repo, run the quick checks, undo it
P=$1; shift
git -C /repo diff --quiet || { echo "/repo is dirty"; exit 2; }
git -C /repo apply "$P" || { echo "patch does not apply"; exit 2; }
for id in "$@"; do
  /verif/check $id --tier quick > /tmp/try_$id.out 2>&1; rc=$?
  echo "== $id rc=$rc"; grep -E "VIOLATION|KNOWN-FINDING|MACHINERY|violated clause|^OK" /tmp/try_$id.out | cut -c1-400 | head -6
done
git -C /repo checkout -- . ; git -C /repo status --short | head -3
