#!/usr/bin/env python3
"""tools/import_seed5.py : copy the confirmed round-5 seeded changes (/tmp/seedout5/<prop>/, one per property) into
/verif/seeded/<prop>-9.  'change' is the title line of the seeding agent's notes."""
import json, os, re, shutil
ALSO = {"C06-9": ["C07"], "C09-9": ["C07"], "C16-9": ["C19", "C20"]}
for i in range(1, 21):
    prop = "C%02d" % i
    src = "/tmp/seedout5/%s" % prop
    sid = "%s-9" % prop
    try:
        conf = json.load(open(src + "/confirm.json"))
    except Exception:
        print("NO CONFIRMATION", sid); continue
    if not (conf["patch_applies"] and conf["demo_rc_unchanged"] == 0 and conf["demo_rc_patched"] != 0 and "106 passed" in conf["suite_summary"]):
        print("NOT CONFIRMED", sid, conf); continue
    dst = "/verif/seeded/" + sid
    os.makedirs(dst, exist_ok=True)
    for f in ("patch.diff", "demo.py", "notes.md"):
        shutil.copy("%s/%s" % (src, f), "%s/%s" % (dst, f))
    notes = open(src + "/notes.md").read()
    m = re.search(r"needs? to manifest[^\n]*(\n(?!\n)[^\n]*)*", notes, re.I)
    meta_p = dst + "/meta.json"
    meta = json.load(open(meta_p)) if os.path.exists(meta_p) else {}
    meta.update({"property": prop, "round": 5,
                 "origin": "independent sub-agent given only the property record, the kinds of change already collected for it and a scratch worktree",
                 "change": re.sub(r"\s+", " ", notes.split("\n", 1)[0].lstrip("# ")).strip()[:300],
                 "confirmed": {"how": "tools/confirm_seed.sh in a scratch worktree of /repo HEAD: demo on unchanged tree, demo with patch, full pytest suite with patch",
                               "demo_rc_unchanged": conf["demo_rc_unchanged"], "demo_rc_patched": conf["demo_rc_patched"],
                               "suite_with_patch": conf["suite_summary"], "suite_failed": conf["suite_failed"]},
                 "needs_to_manifest": re.sub(r"\s+", " ", m.group(0).replace("*", "")).strip()[:600] if m else "see notes.md"})
    if sid in ALSO:
        meta["also_try"] = ALSO[sid]
    meta.setdefault("detected_by", None)
    json.dump(meta, open(meta_p, "w"), indent=1)
    print("imported", sid)
