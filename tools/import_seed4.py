#!/usr/bin/env python3
"""tools/import_seed4.py : copy the confirmed round-4 seeded changes (/tmp/seedout4/<prop>/) into /verif/seeded/<prop>-7 and -8.
'change' is the heading the seeding agent gave the patch in its notes; 'needs_to_manifest' the paragraph of its notes that says so."""
import json, os, re, shutil
ALSO = {"C09-7": ["C07"], "C12-7": ["C13"], "C13-7": ["C12"], "C07-7": ["C09"], "C07-8": ["C06"], "C19-8": ["C20", "C18"]}
SKIP = {"C05-8": "identical to seeded/C09-6 (dt taken before configure_settings)"}


def sections(text):
    heads = [m.start() for m in re.finditer(r"^## .*$", text, re.M)]
    secs = [text[a:b] for a, b in zip(heads, heads[1:] + [len(text)])]
    return [s for s in secs if re.match(r"## (Patch|\d\.)", s) or "patch" in s.split("\n", 1)[0].lower()]


def needs(sec):
    m = re.search(r"needs?( in order)? to manifest[^\n]*\n?", sec, re.I)
    if not m:
        return None
    rest = sec[m.start():]
    para = re.split(r"\n\s*\n", rest, 1)[0] if len(rest.split("\n", 1)[0]) > 60 else "\n".join(re.split(r"\n\s*\n", rest, 2)[:2])
    return re.sub(r"\s+", " ", para.replace("*", "").replace("#", "")).strip()[:600]


for i in range(1, 21):
    prop = "C%02d" % i
    src = "/tmp/seedout4/%s" % prop
    secs = sections(open(src + "/notes.md").read())
    for k, (suf, n) in enumerate((("", 7), ("2", 8))):
        sid = "%s-%d" % (prop, n)
        if sid in SKIP:
            print("skip", sid, SKIP[sid]); continue
        conf = json.load(open("%s/confirm%s.json" % (src, suf)))
        if not (conf["patch_applies"] and conf["demo_rc_unchanged"] == 0 and conf["demo_rc_patched"] != 0 and "106 passed" in conf["suite_summary"]):
            print("NOT CONFIRMED", sid); continue
        dst = "/verif/seeded/" + sid
        os.makedirs(dst, exist_ok=True)
        shutil.copy("%s/patch%s.diff" % (src, suf), dst + "/patch.diff")
        shutil.copy("%s/demo%s.py" % (src, suf), dst + "/demo.py")
        shutil.copy(src + "/notes.md", dst + "/notes.md")
        sec = secs[k] if k < len(secs) else ""
        meta_p = dst + "/meta.json"
        meta = json.load(open(meta_p)) if os.path.exists(meta_p) else {}
        meta.update({"property": prop, "round": 4,
                     "origin": "independent sub-agent given only the property record, the six kinds of change already collected and a scratch worktree",
                     "change": re.sub(r"\s+", " ", sec.split("\n", 1)[0].lstrip("# ")).strip()[:300],
                     "confirmed": {"how": "tools/confirm_seed.sh in a scratch worktree of /repo HEAD: demo on unchanged tree, demo with patch, full pytest suite with patch",
                                   "demo_rc_unchanged": conf["demo_rc_unchanged"], "demo_rc_patched": conf["demo_rc_patched"],
                                   "suite_with_patch": conf["suite_summary"], "suite_failed": conf["suite_failed"]},
                     "needs_to_manifest": needs(sec) or "see notes.md"})
        if sid in ALSO:
            meta["also_try"] = ALSO[sid]
        meta.setdefault("detected_by", None)
        json.dump(meta, open(meta_p, "w"), indent=1)
print("imported")
