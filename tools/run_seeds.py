#!/usr/bin/env python3
"""tools/run_seeds.py [-j N] [ids...] : apply each seeded change in a scratch worktree of /repo (VERIF_REPO), run the quick
check of its property there, remove the worktree and record the outcome in the seed's meta.json (detected_by).
/repo itself is never modified.  (The runs overwrite /verif/evidence/<id>.json: regenerate the evidence against /repo afterwards.)"""
import concurrent.futures as cf, glob, json, os, subprocess, sys, tempfile
args = sys.argv[1:]
jobs = 4
if args[:1] == ["-j"]:
    jobs = int(args[1]); args = args[2:]
ids = args or sorted(os.path.basename(d) for d in glob.glob("/verif/seeded/C*"))


def one(sid):
    d = "/verif/seeded/" + sid
    meta = json.load(open(d + "/meta.json"))
    if meta.get("retired"):
        return sid, "retired"
    props = [meta["property"]] + [p for p in meta.get("also_try", [])]
    wt = tempfile.mkdtemp(prefix="seed_wt.", dir="/tmp"); os.rmdir(wt)
    if subprocess.run(["git", "-C", "/repo", "worktree", "add", "--detach", wt, "HEAD"], capture_output=True).returncode != 0:
        return sid, "worktree failed"
    try:
        if subprocess.run(["git", "-C", wt, "apply", d + "/patch.diff"], capture_output=True).returncode != 0:
            meta["detected_by"] = "patch does not apply to current /repo HEAD"
            json.dump(meta, open(d + "/meta.json", "w"), indent=1)
            return sid, "NO-APPLY"
        res = []
        for prop in props:
            p = subprocess.run(["/verif/check", prop, "--tier", "quick"], capture_output=True, text=True, timeout=3000, env=dict(os.environ, VERIF_REPO=wt))
            lines = [l for l in p.stdout.splitlines() if l.startswith("  violated clause")]
            res.append({"check": "./check %s --tier quick" % prop, "exit": p.returncode, "first_clause": lines[0][:300] if lines else None})
            if p.returncode == 1:
                break
        meta["detected_by"] = res[-1] if res[-1]["exit"] == 1 else res[0]
        json.dump(meta, open(d + "/meta.json", "w"), indent=1)
        return sid, "rc=%d %s" % (meta["detected_by"]["exit"], (meta["detected_by"]["first_clause"] or "")[:140])
    finally:
        subprocess.run(["git", "-C", "/repo", "worktree", "remove", "--force", wt], capture_output=True)


with cf.ThreadPoolExecutor(jobs) as ex:
    for sid, out in ex.map(one, ids):
        print(sid, out, flush=True)
subprocess.run(["git", "-C", "/repo", "worktree", "prune"])
