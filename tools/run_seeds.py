#!/usr/bin/env python3
"""tools/run_seeds.py [ids...] : apply each seeded change to /repo, run the quick check of its property, undo it,
and record the outcome in the seed's meta.json (detected_by).  Never leaves /repo modified."""
import json, os, subprocess, sys, glob
ids = sys.argv[1:] or sorted(os.path.basename(d) for d in glob.glob("/verif/seeded/C*"))
for sid in ids:
    d = "/verif/seeded/" + sid
    meta = json.load(open(d + "/meta.json"))
    prop = meta["property"]
    if subprocess.run(["git", "-C", "/repo", "diff", "--quiet"]).returncode != 0:
        print("/repo dirty"); sys.exit(2)
    if subprocess.run(["git", "-C", "/repo", "apply", d + "/patch.diff"]).returncode != 0:
        meta["detected_by"] = "patch does not apply to current /repo"; json.dump(meta, open(d + "/meta.json", "w"), indent=1)
        print(sid, "NO-APPLY"); continue
    try:
        p = subprocess.run(["/verif/check", prop, "--tier", "quick"], capture_output=True, text=True, timeout=1500)
        lines = [l for l in p.stdout.splitlines() if l.startswith("  violated clause")]
        meta["detected_by"] = {"check": "./check %s --tier quick" % prop, "exit": p.returncode,
                               "first_clause": lines[0][:300] if lines else None}
        print(sid, "rc=%d" % p.returncode, (lines[0][:160] if lines else p.stdout[-200:]))
    finally:
        subprocess.run(["git", "-C", "/repo", "checkout", "--", "."])
    json.dump(meta, open(d + "/meta.json", "w"), indent=1)
