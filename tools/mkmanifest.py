#!/usr/bin/env python3
"""Regenerates MANIFEST.json from the table below (keeps it schema-valid at all times)."""
import json, os
V = os.path.dirname(os.path.dirname(os.path.abspath(__file__)))
props = [json.loads(l) for l in open(os.path.join(V, "properties.jsonl"))]

ABM_TECH = "TLA+ spec (spec/Abm.tla) + TLC exhaustive invariants; TLC-generated behaviours (all short histories + long random ones) replayed into the implementation with the observation compared after every action"
SRV_TECH = "TLA+ spec (spec/Server.tla) + TLC exhaustive invariants/action properties; TLC-generated request histories replayed into a real BptkServer (Flask test client, controlled clock, FileAdapter on a scratch directory) with every response compared"
EXPR_TECH = "TLA+ spec (spec/Expr.tla + spec/Rat.tla: expression trees, exact rational reference semantics, concrete-syntax renderers) enumerated exhaustively by TLC; every enumerated tree evaluated by the implementation and compared with the spec's value"
SD_TECH = "TLA+ spec (spec/SdModel.tla over spec/Rat.tla: explicit-Euler state machine with exact rational arithmetic, EulerRelation/FlowsNonNegative/GridExact checked by TLC); every TLC-generated trajectory replayed into the implementation and compared element by element at every grid time"
SCN_TECH = "TLA+ spec (spec/Scenario.tla: managers, scenarios, settings, explicit object identity of points dictionaries, one session) + TLC exhaustive invariants/action properties; TLC-generated operation histories replayed into a real bptk object with the results of every scenario and of the base model compared after every action against a fresh computation carrying exactly the settings in force"
CHECKS = {
 "C09": dict(cat="model_checking", ref="6/C09",
    text="spec/Session.tla: the session as a clock over the run; run-step / run-steps(n) / stream-steps as 1 / n / all-remaining steps with the same settings; TLC checks OnGrid, WithinRun, Euler and the action property AppendOnly (what was reported never changes: settings act from their step on) exhaustively and enumerates every partition of a run into up to 3-4 calls with per-call settings; each history is replayed through the Python session API and through the REST endpoints (run-step, run-steps, stream-steps, flat results, session-results, flat-session-results), for rotating subsets of requested equations, over two scenarios of which one never receives settings, on run specs with dt in {1,.5,.25} including start times that are not multiples of dt; batch results in df, dict, json and POST /run are compared with the closed form on the same grid",
    note="ABM sessions are not covered; sessions after a restore are C20",
    tech="TLA+ spec + TLC exhaustive; TLC-enumerated call partitions replayed through every channel with row-by-row comparison"),
 "C08": dict(cat="model_checking", ref="6/C08",
    text="spec/Memo.tla. Part 1: definitions carry version counters and memo cells record the versions they were computed with; TLC checks NoStale exhaustively over edit/evaluate histories (constant, stock initial value, flow and converter equations, first definition of a so far undefined input, cache reset); all short histories and long random ones are replayed on a real Model and every evaluation is compared with a freshly built model carrying the final definitions; runs are repeated with different equation lists. Part 2: memoize as Check / Compute / Store per worker thread over the shared cell of a stochastic element; TLC checks SingleValued over every interleaving of 2-3 threads; every emitted schedule is forced on the real Model.memoize by the line-level scheduler and the value each thread reports is compared with the value dependents consumed and with the memo; sequential consumers on decimal grids (t - dt chains) are checked for the same property. Both listed deviations (D08a, D08b) violate the invariants in the spec",
    note="anchors of Model.memoize found by text/regex; stochastic values are never compared with numbers, only for single-valuedness",
    tech="TLA+ spec + TLC exhaustive invariants; TLC-generated edit histories replayed with a fresh-model oracle; TLC-generated thread schedules forced on the implementation (sys.settrace scheduler)"),
 "C06": dict(cat="model_checking", ref="6/C06",
    text="spec/Scenario.tla: TLC checks BaseIntact and the action property Isolated (an action on one scenario leaves what every other scenario is simulated with unchanged) exhaustively; the shared-dictionary deviation violates BaseIntact in the spec. Histories over 1-2 managers registered from one base model and 2-3 scenarios (register with/without constants, points, run specs and manager base values; batch run; REST /run settings; set_property_value; begin/step/end of a session with settings; cache reset) are replayed (all histories of length 3-5 plus long random ones); after EVERY action all scenarios and the base model object are evaluated and compared",
    note="a scenario in a live session is not run in batch at the same time; step settings only on scenarios that list the value (KF-C07-1)",
    tech=SCN_TECH),
 "C07": dict(cat="model_checking", ref="6/C07",
    text="spec/Scenario.tla: TLC checks Exact (a scenario is simulated with its own settings over the manager's base values over the model's) and NoOverrideMeansModel exhaustively; deviation D23 violates Exact. Delivery channels replayed: dict registration with base constants/points and run specs (all 162 combinations exhaustively), later settings through POST /run, begin_session settings, run_step settings, set_property_value (DSL model, run specs included), and JSON scenario files spread over two files with an XMILE-sourced model (constants, points; every registration combination of two scenarios under base values living in different files, run in fresh processes)",
    note="known finding KF-C07-1 reproduced on its canonical history only; run specs only for DSL models",
    tech=SCN_TECH),
 "C01": dict(cat="model_checking", ref="6/C01",
    text="spec/SdModel.tla: one Euler step per transition for a reference family (4 stocks with non-negative and bidirectional in/outflows, first-order and constant outflows, functions of elements written directly in stock equations, converters, lookup over TIME and over a stock, delay with/without initial value, smooth, trend, step, pulse) over parameter sets with rising/falling/sign-changing inputs and run specs start in {0,1,.5,2,..} x dt in {1,2,.5,.25,.2,.1,...}; each trajectory is built with the SD DSL (several spellings of the same mathematics) and compared at three observation points: Model.evaluate_equation, bptk.run_scenarios(df), Element.plot(return_df=True)",
    note="values beyond the spec's rational range are skipped (counted); trend initial average = DSL initial_value argument; transcendental / random built-ins are outside this technique (DESIGN 9)",
    tech=SD_TECH),
 "C04": dict(cat="translation_validation", ref="6/C04",
    text="the SdModel.tla trajectories of the same family rendered as XMILE documents (stocks with 1-2 inflows and 0-2 outflows, non_negative and bidirectional flows, auxiliaries, graphical functions with xscale and with explicit uneven xpts over TIME and over a stock, IF/MAX spellings) with dt spelled as decimal and as reciprocal; each document is compiled with compile_xmile and every stock/flow/auxiliary compared with the Euler trajectory at every grid time, then compared with the same structure built in the SD DSL",
    note="XMILE built-ins DELAY/SMTH/TREND/STEP/PULSE are not part of this property; the 'source' scenario-manager channel is exercised under C07",
    tech=SD_TECH + " (programs = generated XMILE documents; second oracle: the DSL twin)"),
 "C10": dict(cat="model_checking", ref="6/C10",
    text="spec/Arr.tla: exact results (module Rat) of element-wise + - * / between arrays of equal shape and between array and scalar in both operand orders, the dot product in its vector.vector, matrix.vector, vector.matrix and matrix.matrix forms, and sum, product, mean, median, variance, rank (every rank up to beyond the size) and size, with the shape rules that make an operation invalid; TLC enumerates every shape pair up to 3x3 (1012 cases, DotShapeOK checked); each case is built with indexed and with named arrays, scalar operands as elements and as literals, plus equal-shaped operands with different index names, assigned to a converter and read back entry by entry; every spec result is also cross-checked against numpy itself",
    note="dimensions 1..3, integer entries; stddev compared through the exact variance; a valid operation the DSL rejects with an exception is counted but is not a wrong value",
    tech="TLA+ spec (spec/Arr.tla) enumerated exhaustively by TLC; every case replayed into the DSL and compared entry by entry (numpy as independent cross-check of the spec)"),
 "C05": dict(cat="model_checking", ref="6/C05",
    text="spec/TimeGrid.tla: the clock of a run / session as a state machine over decimal times scaled by 10^4 (exact start + i*dt); TLC checks Increasing, OnGrid, NoGap, EndsAtStop over the lattice start in {0,1,.5,.1,2.25,10,100.3} x dt in {1,2,.5,.25,.125,.0625,.1,.2,.05,.02,.01,.3,.7} x n and emits every grid; for every grid util.timerange is compared label by label with exact float/repr equality against the decimal literal, and for a seeded subset the index of run_scenarios (df), the keys of dict and json results, Element.plot(return_df=True), run_step keys, session_results keys, a scenario reaching the same grid through runspecs on a coarser model, the stock values (one integration step per interval) and three arithmetic routes to every grid point (i*dt, repeated addition, stop - j*dt) which must hit the same memo cell",
    note="decimals with <= 4 digits; stop on the grid; sessions begun with the model's dt",
    tech="TLA+ spec + TLC exhaustive lattice enumeration; every enumerated grid replayed into the implementation's observation points with exact label comparison"),
 "C02": dict(cat="model_checking", ref="6/C02",
    text="spec/Expr.tla: TLC enumerates every (outer operator, operand position, inner operator) nesting of + - * / ** % and the six comparisons with element and literal operands (both operand orders, so __radd__/__rsub__/__rmul__ routes are taken), unary minus, abs/sqrt/exp/round/min/max wrappers inside and around operators, If/And/Or/Not forms, depth-3 associativity chains and the complete depth-2 enumeration (353k trees; sampled in the quick tier, exhaustive in the thorough tier), each with its exact rational value in 5 operand environments chosen so that every pair of groupings differs (TLC-checked: Separates); the fully parenthesised Python text of each tree is evaluated over real DSL constants and the converter value compared",
    note="reference undefined (skipped, counted) at discontinuities; a nesting the DSL rejects with an exception conforms; array aggregates are covered under C10",
    tech=EXPR_TECH),
 "C03": dict(cat="translation_validation", ref="6/C03",
    text="spec/Expr.tla renders every enumerated tree as XMILE equation text in three spellings (minimal parentheses per the XMILE precedence table, redundant parentheses, no whitespace) and the harness adds three variable-naming shapes (plain, declared with spaces / referenced with underscores, differing letter case); documents of 400 equations are compiled with compile_xmile and every variable of the generated model is evaluated and compared with the spec's exact value in 5 environments; pure-arithmetic equations must be accepted, equations outside the grammar (unknown functions, dangling operators) must fail loudly",
    note="reference: XMILE precedence (^ right-assoc above unary minus); MOD only for non-negative operands; IF/comparison/AND/OR/NOT/built-in forms may be rejected loudly by the PEG grammar; multi-model (module) documents are not generated",
    tech=EXPR_TECH + " (programs = generated XMILE documents)"),
 "C18": dict(cat="model_checking", ref="6/C18",
    text="spec/StepLock.tla: each stepping request is a process over the critical sections try-lock / read clock / write clock / unlock (plus client abort of a stream); TLC explores every interleaving of 2 and 3 concurrent requests of all kind combinations and checks Exclusive, Serial, Consecutive, NoDup, ClockExact, Released, RefusedNothing; the three deviations of the old code (check-then-lock, run-step without lock, stream without unlock) each violate a clause in the spec. Every schedule emitted by TLC (sampled for 3 requests) is forced on the real server by a line-level scheduler (request threads park at the anchor source lines), the five clauses are evaluated on the real responses/clock/lock/session-results/follow-up step, and the recorded event traces (lock flag and clock after every segment) are validated by TLC against spec/StepLockTrace.tla with all invariants evaluated in every trace state",
    note="anchors are found by text at run time (missing anchors = machinery failure, exit 2); preemption inside one anchor line is not explored; N=2, stop=3",
    tech="TLA+ spec + TLC exhaustive over interleavings; TLC schedules forced on the implementation (sys.settrace scheduler); recorded traces validated against the spec by TLC (trace validation, deadlock = rejection)"),
 "C15": dict(cat="model_checking", ref="6/C15",
    text="spec/Server.tla with the action Refused(kind, instance, credential) and the action property AuthOK (a refused request answers >= 400 and leaves clock, instance table, external store untouched), checked by TLC in every reachable server state; against the live app: every rule and method of the URL map (enumerated at run time) x 14 credential shapes that do not contain the token x 5 server states (no instances, instance without session, live session, locked session, externalised swept instance) x adapter on/off is sent with a body that would act when authorised, and a deep snapshot (instance table, session states, scenario settings, memo sizes, object identities, bytes of the state directory, destroy calls) is compared before/after; authorised controls prove the requests would have had an effect; TLC histories mixing authorised and refused requests are replayed",
    note="refusal demanded only for credentials not containing the exact token as a space-delimited word; Flask's automatic OPTIONS response must change nothing but need not be a refusal",
    tech=SRV_TECH + "; exhaustive route x method x credential x state table from the live URL map"),
 "C16": dict(cat="model_checking", ref="6/C16",
    text="spec/Server.tla: TLC checks the action property Isolated (a request addressed to one instance changes no other instance's memory or external state) and Continuity exhaustively for 2 instances; TLC-generated interleavings of begin (with/without settings, two scenarios), run-step, run-steps, results, end, keep-alive, stop over 2-3 instances are replayed on one server, every response compared with the spec and byte-for-byte with a solo replay of that instance's own requests on a fresh server",
    note="interleaving at request granularity; timeouts covered by C17; trusted: TLC, replay adapter, Flask test client",
    tech=SRV_TECH + "; differential solo replay"),
 "C17": dict(cat="model_checking", ref="6/C17",
    text="spec/Server.tla with an integer clock: TLC checks AliveOK (available while less than the timeout has elapsed since creation/last access) and GoneOK (nothing expired stays after a sweep-triggering request) exhaustively for 2-3 instances; timed histories (create, every instance-scoped request, keep-alive, metrics, ticks) are replayed under a controlled clock for every timedelta unit and two mixed-unit spellings, with and without an external state adapter (lazy restore), comparing statuses, full-metrics, instance counts and that bptk.destroy() ran for swept instances",
    note="controlled clock (datetime replaced inside the server modules); access to an expired, not yet swept instance without adapter is outside the spec (not asserted)",
    tech=SRV_TECH),
 "C19": dict(cat="model_checking", ref="6/C19",
    text="spec/Server.tla store fragment: every externalisation is the in-memory session (clock, settings log, results log) and every restore path (lazy restore after a sweep, /save-state + /load-state, new server object) yields it back; histories with run-step (settings / empty / no body), run-steps, begin/end over 1-2 instances and a two-manager session are replayed with both compression modes; session-results, step results, the restored clock and settings log are compared after every step",
    note="known findings KF-C20-1 (settings not replayed after restore) and KF-C19-1 (compressed format drops setting-less steps) are matched only against the spec's faithful prediction (Dev set) for the same history",
    tech=SRV_TECH),
 "C20": dict(cat="model_checking", ref="6/C20",
    text="spec/Server.tla with Crash and Tear actions: TLC checks Continuity (every step after any crash/restore answers what the uninterrupted session would) and AliveOK exhaustively; every crash point of every session history up to length 5-6 (enumerated by TLC) and long random histories over two instances with torn state files (six truncation classes; every byte offset in the thorough tier) are replayed by dropping the server object and constructing a new one on the same directory",
    note="crash = new server object on the same state directory; torn write = truncated file; KF-C20-1 matched only against the faithful prediction",
    tech=SRV_TECH),
 "C11": dict(cat="model_checking", ref="6/C11",
    text="spec/Abm.tla event fragment: TLC checks AtMostOnce, RightAgent, RightStep (sent+1+ceil(delay/dt)), InOrder, ExactlyOnce (receiver alive and handling when due), DueInTime exhaustively for small populations/events/steps over create/delete/set-state/send/step; TLC-generated histories (all of length 4-5, plus long random ones for dt in {1,.5,.1,.25,.2} with on- and off-grid delays, sends from outside and from inside act(), deletions, reconfiguration) are replayed into a real Model with instrumented agents and the handler log is compared after every step",
    note="trusted: TLC, replay adapter; handling order asserted only between events enqueued in the same step; claims restricted to events whose receiver has a handler in its current state",
    tech=ABM_TECH),
 "C12": dict(cat="model_checking", ref="6/C12",
    text="spec/Abm.tla run loop: Run(start,stop,collect,dt) is the iteration of the scheduler step function; TLC-generated histories mixing create/delete/planned deletions and creations from inside act()/single steps/whole runs with changing dt are replayed; the exact callback sequence begin, (handle, act) per live agent in creation order, end, collect, the step times round+step*dt and the statistics keys are compared",
    note="agents created/deleted inside act() are excused for that very step; progress-widget path not driven; integer start<=stop in 0..3, dt in {1,.5,.25,.2,.1}",
    tech=ABM_TECH),
 "C13": dict(cat="model_checking", ref="6/C13",
    text="spec/Abm.tla statistics: TLC proves by enumeration (all populations <=3-4 agents, 2 types, 2 states, values {-2,0,1,2.5}, every order) that the incremental collector algorithm (FoldStats) equals the declarative aggregates (Stats); histories with state/value changes from outside and inside act() are replayed and Model.statistics() compared cell by cell; the same populations are run through bptk.run_scenarios in df, dict and json for selections of agents/states/aggregate kinds and every cell compared",
    note="a time missing from a returned table is read as zero; only states populated at some recorded time are selected (DESIGN 4.4)",
    tech=ABM_TECH),
 "C14": dict(cat="model_checking", ref="6/C14",
    text="spec/Abm.tla registry fragment: TLC checks UniqueIds, IdsBelowNext, TypeMapExact, CountsAgree and the action property NeverReused exhaustively for <=5 (thorough 7) ids over create/delete(1-2 ids)/configure/reset/set-state; every history of length 4 (thorough 5) enumerated by TLC plus long random TLC behaviours are replayed into a real BPTK_Py.Model and every registry query is compared with the spec after every operation; in the other direction random operation sequences driven on the real Model are recorded (operation, arguments, every query answer) and validated by TLC against spec/AbmTrace.tla (an unexplained event = deadlock), with all invariants evaluated in every trace state",
    note="trusted: TLC, the ~150-line replay adapter; bounded history length / population; reference agents are plain Agent subclasses",
    tech="TLA+ spec + TLC exhaustive invariants; TLC-generated behaviours replayed into the implementation with per-step state comparison; recorded implementation traces validated against the spec by TLC"),
}
NOT_YET = "check not built yet in this round (planned in DESIGN.md section 6); no claim is made"

m = {"version": 1,
     "setup_cmd": "./setup.sh",
     "hooks": {"guard": "BPTK_PY_VERIF", "enable": "no source hooks: instrumentation is installed from /verif/harness (subclasses, wrappers) with BPTK_PY_VERIF=1 in the environment",
               "baseline_off_cmd": "cd /repo && /venv/bin/python -m pytest -ra -q -p no:cacheprovider --timeout=900 --continue-on-collection-errors --junitxml=/tmp/bptk_baseline.junit.xml",
               "source_commits": [], "add_only": True},
     "engines": [{"name": "tlc-replay", "path": "harness/", "serves_properties": sorted(CHECKS),
                  "kind_free_text": "TLA+ specifications (spec/*.tla) checked by TLC; behaviours emitted by TLC replayed into the real code; traces of the real code validated by TLC"}],
     "checks": [], "not_applicable": [],
     "notes": "see DESIGN.md; known_findings.json lists recorded and fixed defects"}
for p in props:
    i = p["id"]
    if i in CHECKS:
        c = CHECKS[i]
        m["checks"].append({"property_id": i, "quick_cmd": "./check %s --tier quick" % i,
                            "thorough_cmd": "./check %s --tier thorough" % i,
                            "evidence_file": "/verif/evidence/%s.json" % i,
                            "replay_cmd_template": "./check %s --replay {path}" % i,
                            "engine": "tlc-replay",
                            "level_claimed": {"category": c["cat"], "text": c["text"], "design_ref": c["ref"]},
                            "level_note": c["note"], "technique": c["tech"]})
    else:
        m["not_applicable"].append({"property_id": i, "reason": NOT_YET})
json.dump(m, open(os.path.join(V, "MANIFEST.json"), "w"), indent=1)
print("checks:", [c["property_id"] for c in m["checks"]])
