#!/usr/bin/env python3
"""Regenerates MANIFEST.json from the table below (keeps it schema-valid at all times)."""
import json, os
V = os.path.dirname(os.path.dirname(os.path.abspath(__file__)))
props = [json.loads(l) for l in open(os.path.join(V, "properties.jsonl"))]

ABM_TECH = "TLA+ spec (spec/Abm.tla) + TLC exhaustive invariants; TLC-generated behaviours (all short histories + long random ones) replayed into the implementation with the observation compared after every action"
CHECKS = {
 "C11": dict(cat="model_checking", ref="6/C11",
    text="spec/Abm.tla event fragment: TLC checks AtMostOnce, RightAgent, RightStep (sent+1+ceil(delay/dt)), InOrder, ExactlyOnce (receiver alive and handling when due), DueInTime exhaustively for small populations/events/steps over create/delete/set-state/send/step; TLC-generated histories (all of length 4-5, plus long random ones for dt in {1,.5,.1,.25,.2} with on- and off-grid delays, sends from outside and from inside act(), deletions, reconfiguration) are replayed into a real Model with instrumented agents and the handler log is compared after every step",
    note="trusted: TLC, replay adapter; handling order asserted only between events enqueued in the same step; claims restricted to events whose receiver has a handler in its current state",
    tech=ABM_TECH),
 "C12": dict(cat="model_checking", ref="6/C12",
    text="spec/Abm.tla run loop: Run(start,stop,collect,dt) is the iteration of the scheduler step function; TLC-generated histories mixing create/delete/planned deletions and creations from inside act()/single steps/whole runs with changing dt are replayed; the exact callback sequence begin, (handle, act) per live agent in creation order, end, collect, the step times round+step*dt and the statistics keys are compared",
    note="agents created/deleted inside act() are excused for that very step; progress-widget path not driven; integer start<=stop in 0..3, dt in {1,.5,.25,.2,.1}",
    tech=ABM_TECH),
 "C13": dict(cat="model_checking", ref="6/C13",
    text="spec/Abm.tla statistics: TLC proves by enumeration (all populations <=3-4 agents, 2 types, 2 states, values {-2,0,1,2.5}, every order) that the incremental collector algorithm (FoldStats) equals the declarative aggregates (Stats); histories with state/value changes from outside and inside act() are replayed and Model.statistics() compared cell by cell; the same populations are run through bptk.run_scenarios in df, dict and json for selections of agents/states/aggregate kinds and every cell compared",
    note="a time missing from a returned table is read as zero; only states populated at some recorded time are selected (DESIGN 4.4)",
    tech=ABM_TECH),
 "C14": dict(cat="model_checking", ref="6/C14",
    text="spec/Abm.tla registry fragment: TLC checks UniqueIds, IdsBelowNext, TypeMapExact, CountsAgree and the action property NeverReused exhaustively for <=5 (thorough 7) ids over create/delete(1-2 ids)/configure/reset/set-state; every history of length 4 (thorough 5) enumerated by TLC plus long random TLC behaviours are replayed into a real BPTK_Py.Model and every registry query is compared with the spec after every operation",
    note="trusted: TLC, the ~150-line replay adapter; bounded history length / population; reference agents are plain Agent subclasses",
    tech="TLA+ spec + TLC exhaustive invariants; TLC-generated behaviours replayed into the implementation with per-step state comparison"),
}
NOT_YET = "check not built yet in this round (planned in DESIGN.md section 6); no claim is made"

m = {"version": 1,
     "setup_cmd": "./setup.sh",
     "hooks": {"guard": "BPTK_PY_VERIF", "enable": "no source hooks: instrumentation is installed from /verif/harness (subclasses, wrappers) with BPTK_PY_VERIF=1 in the environment",
               "baseline_off_cmd": "cd /repo && /venv/bin/python -m pytest -ra -q -p no:cacheprovider --timeout=900 --continue-on-collection-errors --junitxml=/tmp/bptk_baseline.junit.xml",
               "source_commits": [], "add_only": True},
     "engines": [{"name": "tlc-replay", "path": "harness/", "serves_properties": sorted(CHECKS),
                  "kind_free_text": "TLA+ specifications (spec/*.tla) checked by TLC; behaviours emitted by TLC replayed into the real code; traces of the real code validated by TLC"}],
     "checks": [], "not_applicable": [],
     "notes": "see DESIGN.md; known_findings.json lists recorded and fixed defects"}
for p in props:
    i = p["id"]
    if i in CHECKS:
        c = CHECKS[i]
        m["checks"].append({"property_id": i, "quick_cmd": "./check %s --tier quick" % i,
                            "thorough_cmd": "./check %s --tier thorough" % i,
                            "evidence_file": "/verif/evidence/%s.json" % i,
                            "replay_cmd_template": "./check %s --replay {path}" % i,
                            "engine": "tlc-replay",
                            "level_claimed": {"category": c["cat"], "text": c["text"], "design_ref": c["ref"]},
                            "level_note": c["note"], "technique": c["tech"]})
    else:
        m["not_applicable"].append({"property_id": i, "reason": NOT_YET})
json.dump(m, open(os.path.join(V, "MANIFEST.json"), "w"), indent=1)
print("checks:", [c["property_id"] for c in m["checks"]])
