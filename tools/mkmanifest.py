#!/usr/bin/env python3
"""Regenerates MANIFEST.json from the table below (keeps it schema-valid at all times)."""
import json, os
V = os.path.dirname(os.path.dirname(os.path.abspath(__file__)))
props = [json.loads(l) for l in open(os.path.join(V, "properties.jsonl"))]

CHECKS = {
 "C14": dict(cat="model_checking", ref="6/C14",
    text="spec/Abm.tla registry fragment: TLC checks UniqueIds, IdsBelowNext, TypeMapExact, CountsAgree and the action property NeverReused exhaustively for <=5 (thorough 7) ids over create/delete(1-2 ids)/configure/reset/set-state; every history of length 4 (thorough 5) enumerated by TLC plus long random TLC behaviours are replayed into a real BPTK_Py.Model and every registry query is compared with the spec after every operation",
    note="trusted: TLC, the ~150-line replay adapter; bounded history length / population; reference agents are plain Agent subclasses",
    tech="TLA+ spec + TLC exhaustive invariants; TLC-generated behaviours replayed into the implementation with per-step state comparison"),
}
NOT_YET = "check not built yet in this round (planned in DESIGN.md section 6); no claim is made"

m = {"version": 1,
     "setup_cmd": "./setup.sh",
     "hooks": {"guard": "BPTK_PY_VERIF", "enable": "no source hooks: instrumentation is installed from /verif/harness (subclasses, wrappers) with BPTK_PY_VERIF=1 in the environment",
               "baseline_off_cmd": "cd /repo && /venv/bin/python -m pytest -ra -q -p no:cacheprovider --timeout=900 --continue-on-collection-errors --junitxml=/tmp/bptk_baseline.junit.xml",
               "source_commits": [], "add_only": True},
     "engines": [{"name": "tlc-replay", "path": "harness/", "serves_properties": sorted(CHECKS),
                  "kind_free_text": "TLA+ specifications (spec/*.tla) checked by TLC; behaviours emitted by TLC replayed into the real code; traces of the real code validated by TLC"}],
     "checks": [], "not_applicable": [],
     "notes": "see DESIGN.md; known_findings.json lists recorded and fixed defects"}
for p in props:
    i = p["id"]
    if i in CHECKS:
        c = CHECKS[i]
        m["checks"].append({"property_id": i, "quick_cmd": "./check %s --tier quick" % i,
                            "thorough_cmd": "./check %s --tier thorough" % i,
                            "evidence_file": "/verif/evidence/%s.json" % i,
                            "replay_cmd_template": "./check %s --replay {path}" % i,
                            "engine": "tlc-replay",
                            "level_claimed": {"category": c["cat"], "text": c["text"], "design_ref": c["ref"]},
                            "level_note": c["note"], "technique": c["tech"]})
    else:
        m["not_applicable"].append({"property_id": i, "reason": NOT_YET})
json.dump(m, open(os.path.join(V, "MANIFEST.json"), "w"), indent=1)
print("checks:", [c["property_id"] for c in m["checks"]])
