#!/usr/bin/env python3
"""tools/import_seed3.py : copy the confirmed round-3 seeded changes (/tmp/seedout3/<prop>/) into /verif/seeded/<prop>-5 and -6"""
import json, os, shutil
NEEDS = {
 "C01-5": "a fractional stop time with a non-dyadic dt whose quotient lands one ulp below the integer (0 -> 2.4 with dt 0.1): nothing is reported at t = stop",
 "C01-6": "a downstream element is evaluated, then an upstream converter or biflow is re-assigned (no stock / flow / constant assignment afterwards), then the downstream element is evaluated again",
 "C02-5": "a % whose two operands have opposite signs when evaluated ((b-a) % c with b < a)",
 "C02-6": "an element-wise equation over vectors or matrices in which a + / - sub-expression is the right operand of a subtraction (u-(v-w))",
 "C03-5": "an unbracketed same-precedence chain of three or more operands whose last two are literals (x / 2 * 3, x - 1 - 1)",
 "C03-6": "INT(...) of a negative, non-integer run-time value",
 "C04-5": "a start time that is not a whole multiple of dt with remainder >= dt/2 (start 0.2, dt 0.25)",
 "C04-6": "a scenario whose run-spec dt differs from the dt the model was transpiled with (reaches the model through change_runspecs): reported on the old grid",
 "C05-5": "a stepwise session on a scenario whose start time is not an integer multiple of dt (start 1.0, dt 0.3)",
 "C05-6": "particular one-decimal start times with integer part 8-9 or 64-99 (8.2, 9.7, 64.1): labels drift at particular indices",
 "C06-5": "a session over two scenario managers registered from one model, settings naming only the manager registered first, a same-named scenario in the later one",
 "C06-6": "two managers from one model object, one with base_points for a named lookup, a scenario of that manager registered: the registered model itself changes",
 "C07-5": "a points setting that arrives after that scenario's model already evaluated the lookup in the same process (second POST /run with points)",
 "C07-6": "points supplied in begin_session settings for a lookup the model already has",
 "C08-5": "two worker threads that both miss memo['x'] right after a model edit, with one particular line interleaving inside the lookup of the element's memo dictionary",
 "C08-6": "one model evaluated on an integer grid, then dt made decimal by assignment (change_runspecs), a cache reset, another evaluation",
 "C09-5": "two sessions one after the other on the same scenario, both passing equal step settings",
 "C09-6": "begin_session whose settings carry runspecs.dt different from the scenario's current dt",
 "C10-5": "an element of an aggregated array is changed after the aggregate was defined (or the array is an arrayed stock / a negative arrayed flow)",
 "C10-6": "two element operands with equal row count but otherwise different shape (vector of n with an n x k matrix)",
 "C11-5": "an agent whose inbox holds, in one step, an event name it has no handler for ahead of an event it does handle",
 "C11-6": "a deletion issued inside a step of the acting agent itself or one earlier in the list, the next agent having an event due",
 "C12-5": "a dt with more than two decimals (0.125, 0.025, 0.001)",
 "C12-6": "one run_scenarios call that has to run two or more ABM scenarios",
 "C13-5": "a numeric property added at runtime, heterogeneous property sets, or the same model reset and configured with other numeric properties",
 "C13-6": "a model that overrides end_round and changes the population there",
 "C14-5": "delete_agent(x) for an id that is not live (deleted twice, or from before a reconfiguration)",
 "C14-6": "delete_agents called with the very list that agent_ids(t) returned",
 "C15-5": "GET /<id>/session-results with the id of an instance live in memory, any or no credential (decorator lost in a refactoring, truthy 401 Response)",
 "C15-6": "an Authorization header with a scheme other than Bearer and non-empty credentials (Basic ..., Token x)",
 "C16-5": "two live instances whose timeouts differ, the shorter one started later, the long one idle longer than the short timeout",
 "C16-6": "instances created by a single /start-instances request with instances >= 2, two of them used with interleaved sessions",
 "C17-5": "instances with different timeouts where a longer-timeout instance was accessed before a shorter-timeout one (sweep stops at the first live instance)",
 "C17-6": "A's timeout elapses and the only requests that follow are step / session requests to other instances, then a request to A",
 "C18-5": "an adapter configured, a run-steps or stream-steps in progress, GET /save-state arriving during it, then another stepping request",
 "C18-6": "an adapter whose save raises at exactly the save made by a run-steps request that holds the lock",
 "C19-5": "begin-session, then a second begin-session with another selection before any step, then a restore",
 "C19-6": "a scenario, manager, equation or constant name that looks like a number, one step and a restore",
 "C20-5": "a stream-steps request the client abandons before it ends, then the server lost before any other stepping request on that instance",
 "C20-6": "a crash at k >= 1, the first stepping request after the restart carrying settings, a history-dependent equation requested",
}
ALSO = {"C02-6": ["C10"], "C08-6": ["C01", "C07"], "C11-6": ["C12"], "C12-6": ["C13"], "C16-5": ["C17"]}
for i in range(1, 21):
    prop = "C%02d" % i
    src = "/tmp/seedout3/%s" % prop
    for suf, n in (("", 5), ("2", 6)):
        sid = "%s-%d" % (prop, n)
        cj = "%s/confirm%s.json" % (src, suf)
        if not os.path.exists(cj):
            print("skip", sid); continue
        conf = json.load(open(cj))
        if not (conf["patch_applies"] and conf["demo_rc_unchanged"] == 0 and conf["demo_rc_patched"] != 0 and "106 passed" in conf["suite_summary"]):
            print("NOT CONFIRMED", sid, {k: conf[k] for k in ("patch_applies", "demo_rc_unchanged", "demo_rc_patched", "suite_summary")}); continue
        dst = "/verif/seeded/" + sid
        os.makedirs(dst, exist_ok=True)
        shutil.copy("%s/patch%s.diff" % (src, suf), dst + "/patch.diff")
        shutil.copy("%s/demo%s.py" % (src, suf), dst + "/demo.py")
        shutil.copy(src + "/notes.md", dst + "/notes.md")
        meta_p = dst + "/meta.json"
        meta = json.load(open(meta_p)) if os.path.exists(meta_p) else {}
        meta.update({"property": prop, "round": 3,
                     "origin": "independent sub-agent given only the property record, the four kinds of change already collected and a scratch worktree",
                     "rebased_onto_fix_commits": False,
                     "confirmed": {"how": "tools/confirm_seed.sh in a scratch worktree of /repo HEAD: demo on unchanged tree, demo with patch, full pytest suite with patch",
                                   "demo_rc_unchanged": conf["demo_rc_unchanged"], "demo_rc_patched": conf["demo_rc_patched"],
                                   "suite_with_patch": conf["suite_summary"], "suite_failed": conf["suite_failed"]},
                     "needs_to_manifest": NEEDS[sid]})
        if sid in ALSO:
            meta["also_try"] = ALSO[sid]
        meta.setdefault("detected_by", None)
        json.dump(meta, open(meta_p, "w"), indent=1)
print("imported")
