"""Getting behaviours out of TLC: every specification carries an observation log `hist`;
generator configurations bound Len(hist) by the constant L and print ToJson(hist) when the bound is
reached (invariant Emit).  BFS mode enumerates *all* histories of length L, simulation mode samples
long random ones.  Results are cached under /verif/cache keyed by the spec text and parameters."""
import hashlib, json, os
from . import tlc
from .common import VERIF


def _deps(module, seen=None):
    """the module and the local modules it EXTENDS / instantiates, transitively"""
    import re
    seen = seen if seen is not None else []
    path = os.path.join(tlc.SPEC_DIR, module + ".tla")
    if module in seen or not os.path.exists(path):
        return seen
    seen.append(module)
    with open(path) as f:
        text = f.read()
    for m in re.findall(r"EXTENDS\s+([^\n]+)", text):
        for name in re.split(r"[,\s]+", m.strip()):
            _deps(name, seen)
    for name in re.findall(r"INSTANCE\s+(\w+)", text):
        _deps(name, seen)
    return seen


def _key(module, consts, kw):
    h = hashlib.sha256()
    for name in sorted(_deps(module)):
        with open(os.path.join(tlc.SPEC_DIR, name + ".tla"), "rb") as f:
            h.update(name.encode()); h.update(f.read())
    h.update(json.dumps([module, consts, kw], sort_keys=True, default=str).encode())
    return h.hexdigest()[:24]


def histories(module, consts, L, *, simulate=None, seed=None, workers=None, timeout=1800, cache=True,
              constraints=("Bound",), emit="Emit", extra_inv=(), defs="", view=None, extra_cfg=None):
    """returns (list of histories, TlcResult-like stats dict)"""
    consts = dict(consts)
    consts["L"] = str(L)
    kw = dict(simulate=simulate, seed=seed, constraints=list(constraints), emit=emit, defs=defs, view=view, extra=extra_cfg)
    cdir = os.path.join(VERIF, "cache")
    path = os.path.join(cdir, "%s_%s.json" % (module, _key(module, consts, kw)))
    if cache and os.path.exists(path):
        with open(path) as f:
            d = json.load(f)
        return d["hists"], d["stats"]
    seen_prefix = {}

    def keep(line):
        """simulation mode: at most two of the histories that differ in their last entry only (cheap test on the raw line:
        everything up to the last record)"""
        k = hashlib.sha1(line[:line.rfind('{\\"')].encode()).digest() if '{\\"' in line else line[:200].encode()
        seen_prefix[k] = seen_prefix.get(k, 0) + 1
        return seen_prefix[k] <= (2 if (simulate or 0) < 200 else 1)     # large samples: one history per behaviour (memory)
    r = tlc.run(module, consts, simulate=simulate, depth=L + 1 if simulate else None, seed=seed,
                workers=workers, timeout=timeout, invariants=[emit] + list(extra_inv),
                constraints=constraints, defs=defs, view=view, emit_filter=keep if simulate else None, **(extra_cfg or {}))
    if r.violation:
        raise tlc.TlcError("generator run of %s violated %s\n%s" % (module, r.violation, r.trace[:3000]))
    hs = r.emitted
    if simulate:
        # in simulation mode TLC evaluates Emit on every successor of the last state of a behaviour:
        # keep at most two histories per common prefix
        seen, keep = {}, []
        for h in hs:
            k = json.dumps(h[:-1], sort_keys=True)
            seen[k] = seen.get(k, 0) + 1
            if seen[k] <= (2 if simulate < 200 else 1):
                keep.append(h)
        hs = keep
    r.emitted = hs
    stats = {"generated": r.generated, "distinct": r.distinct, "wall": round(r.wall, 2), "mode": "simulate" if simulate else "bfs"}
    if cache:
        os.makedirs(cdir, exist_ok=True)
        tmp = path + ".%d.tmp" % os.getpid()
        with open(tmp, "w") as f:
            json.dump({"hists": r.emitted, "stats": stats}, f)
        os.replace(tmp, path)
    return r.emitted, stats
