"""Builds the SdModel.tla reference family with the SD DSL."""
from fractions import Fraction
from .common import use_repo
from .sd_gen import fr

ELEMENTS = ["c1", "fin", "bf", "fout", "fo2", "s1", "s2", "s3", "s4", "lkt", "lks", "lk2", "dl", "sm", "tr", "st", "pl"]


PREFIX = "plant.line."      # fully qualified names of elements created through nested Module objects


def build(P, rs, name="sdm", spelling=0, modules=False):
    """modules=True: every element is created through a Module nested in another Module (names plant.line.<element>)"""
    use_repo()
    from BPTK_Py import Model, Module, sd_functions as sd
    f = lambda v: float(fr(v))
    start, dt, n = f(rs["start"]), f(rs["dt"]), rs["n"]
    stop = float(fr(rs["start"]) + n * fr(rs["dt"]))
    model = Model(starttime=start, stoptime=stop, dt=dt, name=name)
    m = model if not modules else _Namespace(model, Module(model, "line", parent=Module(model, "plant")))
    a = m.constant("a"); a.equation = f(P["a"])
    b = m.constant("b"); b.equation = f(P["b"])
    qf = m.constant("qf"); qf.equation = f(P["q"])
    g = m.constant("g"); g.equation = f(P["g"])
    c1 = m.converter("c1"); c1.equation = a * sd.time() - b
    s1 = m.stock("s1"); s2 = m.stock("s2")
    fin = m.flow("fin"); fin.equation = c1
    bf = m.biflow("bf"); bf.equation = c1
    fout = m.flow("fout"); fout.equation = qf * s1
    # a flow whose rate is a bare Python number (also a negative one: it is clamped at 0 like any other flow) or the constant
    fo2 = m.flow("fo2"); fo2.equation = [lambda: g, lambda: f(P["g"]), lambda: g * 1.0][spelling % 3]()
    # the net flow of a stock in several spellings of the same mathematics (number * element, negation, grouping)
    s1.initial_value = f(P["s0"])
    s1.equation = [lambda: fin - fout - fo2, lambda: fin - (fout + fo2), lambda: -1.0 * fout + fin - fo2, lambda: fin - 1.0 * (fout + fo2),
                   lambda: (-fout) + fin + (-fo2)][spelling % 5]()
    s2.initial_value = 0.0
    s2.equation = [lambda: bf + fout, lambda: 1.0 * bf + fout, lambda: fout + bf * 1.0, lambda: 2.0 * bf + fout - bf,
                   lambda: 0.5 * (bf + fout) + (fout + bf) / 2.0, lambda: fout - (-bf), lambda: 3 * fout + bf - 2 * fout,
                   lambda: 1.123456789 * (bf + fout) - 0.123456789 * (bf + fout)][spelling % 8]()      # (the last one: literals with ten significant digits)
    points = [[f(x), f(y)] for x, y in P["pts"]]
    m.points["tab"] = points
    # functions of elements written directly in a stock's equation, in several spellings of the same mathematics
    s3 = m.stock("s3"); s3.initial_value = 0.0
    s3.equation = [lambda: sd.max(c1, g), lambda: sd.If(c1 > g, c1, g), lambda: sd.max(g, c1), lambda: sd.If(g >= c1, g, c1)][spelling % 4]()
    s4 = m.stock("s4"); s4.initial_value = 0.0
    s4.equation = [lambda: sd.lookup(sd.time(), "tab") + c1 ** 2, lambda: c1 * c1 + sd.lookup(sd.time(), "tab"),
                   lambda: sd.lookup(sd.time(), "tab") + c1 ** 2.0][spelling % 3]()
    # graphical functions by name and with the points written inline (two different inline tables in one model)
    points2 = [[x, y + 1.0] for x, y in points]
    lkt = m.converter("lkt"); lkt.equation = [lambda: sd.lookup(sd.time(), "tab"), lambda: sd.lookup(sd.time(), [list(p_) for p_ in points])][spelling % 2]()
    lks = m.converter("lks"); lks.equation = sd.lookup(s1, "tab")
    lk2 = m.converter("lk2"); lk2.equation = sd.lookup(sd.time(), [list(p_) for p_ in points2])
    dl = m.converter("dl")
    dl.equation = sd.delay(model, c1, float(P["dn"] * fr(rs["dt"])), None if P["dinit"][1] == 0 else f(P["dinit"]))
    sm = m.converter("sm"); sm.equation = sd.smooth(model, c1, f(P["T"]), f(P["sinit"]))
    tr = m.converter("tr"); tr.equation = sd.trend(model, c1, f(P["T"]), f(P["tinit"]))
    st = m.converter("st"); st.equation = sd.step(f(P["h"]), f(P["t0"]))
    first = float(fr(rs["start"]) + P["pfirst"] * fr(rs["dt"]))
    interval = float(P["pint"] * fr(rs["dt"]))
    pl = m.converter("pl"); pl.equation = sd.pulse(model, f(P["pv"]), first, interval)
    return model, start, stop, dt


class _Namespace:
    """creates elements through a Module, everything else (points, run specs, smooth / delay helpers) goes to the Model"""

    def __init__(self, model, module):
        self._model, self._module = model, module

    def __getattr__(self, name):
        if name in ("stock", "flow", "biflow", "converter", "constant"):
            return getattr(self._module, name)
        return getattr(self._model, name)


EDITABLE = ["c1", "fin", "bf", "fout", "fo2", "s1", "s2", "s3", "s4", "lkt", "lks"]      # (lk2's inline table is part of its equation)      # elements that do not capture parameters when built


def edit(m, P, spelling=0):
    """edits an existing model in place into the member of the family with parameters P (constants, the stock's initial
    value, the lookup table) and re-assigns the equations of the stocks: s1 and s2 in another spelling of the same
    mathematics, s3 and s4 with their equations EXCHANGED (afterwards s3 is the reference s4 and vice versa)"""
    from BPTK_Py import sd_functions as sd
    f = lambda v: float(fr(v))
    c = m.constants
    c["a"].equation = f(P["a"]); c["b"].equation = f(P["b"]); c["qf"].equation = f(P["q"]); c["g"].equation = f(P["g"])
    m.points["tab"] = [[f(x), f(y)] for x, y in P["pts"]]
    c1, g = m.converters["c1"], c["g"]
    fin, fout, fo2, bf = m.flows["fin"], m.flows["fout"], m.flows["fo2"], m.biflows["bf"]
    s1, s2, s3, s4 = (m.stocks[n] for n in ("s1", "s2", "s3", "s4"))
    fo2.equation = [lambda: f(P["g"]), lambda: g][spelling % 2]()       # (it may have been built from a bare number)
    m.converters["lkt"].equation = sd.lookup(sd.time(), "tab")            # (it may have been built with inline points)
    s1.initial_value = f(P["s0"])
    s1.equation = [lambda: fin - (fout + fo2), lambda: fin - fout - fo2, lambda: (-fout) + fin + (-fo2)][spelling % 3]()
    s2.equation = [lambda: fout + bf, lambda: bf + fout, lambda: 1.0 * bf + fout][spelling % 3]()
    s3.equation = [lambda: sd.lookup(sd.time(), "tab") + c1 ** 2, lambda: c1 * c1 + sd.lookup(sd.time(), "tab")][spelling % 2]()
    s4.equation = [lambda: sd.max(c1, g), lambda: sd.If(c1 > g, c1, g)][spelling % 2]()
    # last: the converter and the biflow are given a wrong equation, everything downstream is evaluated, then they get their
    # right equation back.  No explicit cache reset: the equation setters are the API that has to take care of it.
    a_, b_ = c["a"], c["b"]
    c1.equation = sd.time() * 0.0 + 1.0
    bf.equation = c1 * 0.0
    for name in ("s1", "s2", "s3", "s4", "fin", "lks"):
        m.evaluate_equation(name, m.stoptime)
    c1.equation = [lambda: a_ * sd.time() - b_, lambda: sd.time() * a_ - b_][spelling % 2]()
    m.evaluate_equation("s2", m.stoptime)
    bf.equation = c1
