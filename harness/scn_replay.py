"""Replays Scenario.tla histories into a real bptk object (dict registration, session, REST /run,
set_property_value) and compares the results of EVERY scenario and of the base model after EVERY action
with a fresh computation carrying exactly the settings the specification says are in force."""
import json, math
from .common import use_repo

TABS = {"A": [[0.0, 0.0], [10.0, 10.0]], "B": [[0.0, 10.0], [10.0, 10.0]], "C": [[0.0, 0.0], [10.0, 20.0]], "D": [[0.0, 4.0], [10.0, 24.0]]}
# the base model starts at 1, so that an override "starttime: 0" (r2) is a falsy value that differs from the model's
RS = {"r0": (1.0, 5.0, 1.0), "r1": (1.0, 3.0, 0.5), "r2": (0.0, 2.0, 0.25), "r3": (2.0, 6.0, 2.0)}
EQS = ["s", "f", "k", "lk"]


def lookup(x, pts):
    if x <= pts[0][0]: return pts[0][1]
    if x >= pts[-1][0]: return pts[-1][1]
    for (x0, y0), (x1, y1) in zip(pts, pts[1:]):
        if x0 <= x < x1:
            return y0 + (y1 - y0) * (x - x0) / (x1 - x0)


def fresh(k, tab, rs):
    """the model built directly with these values, simulated from start to stop with dt: {eq: {t: value}}"""
    start, stop, dt = RS[rs]
    pts = TABS[tab]
    n = int(round((stop - start) / dt))
    out = {e: {} for e in EQS}
    s = 0.0
    for i in range(n + 1):
        t = start + i * dt
        lk = lookup(t, pts)
        out["s"][t], out["k"][t], out["lk"][t], out["f"][t] = s, float(k), lk, max(0.0, k + lk)
        s = s + dt * max(0.0, k + lk)
    return out


def base_model(xmile=None):
    use_repo()
    from BPTK_Py import Model, sd_functions as sd
    start, stop, dt = RS["r0"]
    m = Model(starttime=start, stoptime=stop, dt=dt, name="base")
    k = m.constant("k"); k.equation = 1.0
    m.points["tab"] = [list(p) for p in TABS["A"]]
    lk = m.converter("lk"); lk.equation = sd.lookup(sd.time(), "tab")
    f = m.flow("f"); f.equation = k + lk
    s = m.stock("s"); s.initial_value = 0.0; s.equation = f
    return m


def same(got, exp, tol=1e-9):
    """got/exp: {eq: {t: v}} ; compares grids and values"""
    for e in EQS:
        if e not in got:
            return "equation %s missing" % e
        g = {round(float(t), 9): v for t, v in got[e].items()}
        x = {round(float(t), 9): v for t, v in exp[e].items()}
        if sorted(g) != sorted(x):
            return "time grid of %s: expected %s, observed %s" % (e, sorted(x), sorted(g))
        for t in x:
            if not math.isclose(float(g[t]), x[t], rel_tol=tol, abs_tol=tol):
                return "%s(%s): expected %s, observed %s" % (e, t, x[t], g[t])
    return None


def df_to(got_df, m, sc):
    out = {}
    for e in EQS:
        col = e if e in got_df.columns else "%s_%s_%s" % (m, sc, e)
        if col in got_df.columns:
            out[e] = {float(t): float(v) for t, v in got_df[col].items()}
    return out


class World:
    def __init__(self, with_server=True):
        self.BPTK_Py = use_repo()
        self.base = base_model()
        self.b = self.BPTK_Py.bptk()
        self.client = None
        if with_server:
            import importlib
            srvmod = importlib.import_module("BPTK_Py.server.bptkServer")
            self.app = srvmod.BptkServer(__name__, lambda: self.b)
            self.client = self.app.test_client()
        self.steps = None       # (m, sc, per-step list of (k, tab)) of the live session

    def close(self):
        self.b.destroy()

    def settings(self, h):
        d = {}
        if h.get("k", 0) > 0: d["constants"] = {"k": float(h["k"])}
        if h.get("tab", "") != "": d["points"] = {"tab": [list(p) for p in TABS[h["tab"]]]}
        if h.get("rs", "") != "":
            st, sp, dt = RS[h["rs"]]
            d["runspecs"] = {"starttime": st, "stoptime": sp, "dt": dt}
        return d

    def run(self, m, sc):
        df = self.b.run_scenarios(scenario_managers=[m], scenarios=[sc], equations=EQS, return_format="df")
        return df_to(df, m, sc)

    def probe(self, h):
        """every registered scenario outside the live session, and the base model itself"""
        allm = h["all"] if isinstance(h["all"], dict) else {}       # ToJson renders an empty function as []
        for m, scs in allm.items():
            for sc, eff in (scs.items() if isinstance(scs, dict) else []):
                bad = same(self.run(m, sc), fresh(eff["k"], eff["tab"], eff["rs"]))
                if bad:
                    return ("results of scenario %s/%s after %s" % (m, sc, h["op"]), eff, bad)
        eff = h["base"]
        start, stop, dt = RS[eff["rs"]]
        n = int(round((stop - start) / dt))
        got = {e: {start + i * dt: self.base.evaluate_equation(e, start + i * dt) for i in range(n + 1)} for e in EQS}
        bad = same(got, fresh(eff["k"], eff["tab"], eff["rs"]))
        if bad:
            return ("the base model itself after %s" % h["op"], eff, bad)
        return None

    def apply(self, h):
        """returns None or (clause, expected, observed)"""
        op, b = h["op"], self.b
        if op == "RegMgr":
            d = {"model": self.base}
            if h["bk"] > 0: d["base_constants"] = {"k": float(h["bk"])}
            if h["bt"] != "": d["base_points"] = {"tab": [list(p) for p in TABS[h["bt"]]]}
            b.register_scenario_manager({h["m"]: d})
        elif op == "Register":
            b.register_scenarios({h["sc"]: self.settings(h)}, h["m"])
        elif op == "Run":
            bad = same(self.run(h["m"], h["sc"]), fresh(h["res"]["k"], h["res"]["tab"], h["res"]["rs"]))
            if bad:
                return ("run_scenarios %s/%s" % (h["m"], h["sc"]), h["res"], bad)
        elif op == "RestRun":
            body = {"scenario_managers": [h["m"]], "scenarios": [h["sc"]], "equations": EQS, "settings": {h["m"]: {h["sc"]: self.settings(h)}}}
            r = self.client.post("/run", data=json.dumps(body), content_type="application/json")
            eff = h["all"][h["m"]][h["sc"]]
            if r.status_code != 200:
                return ("POST /run status", 200, (r.status_code, r.get_data(as_text=True)[:200]))
            data = json.loads(r.get_data(as_text=True))
            got = data.get(h["m"], {}).get(h["sc"], {}).get("equations", {})
            bad = same(got, fresh(eff["k"], eff["tab"], eff["rs"]))
            if bad:
                return ("POST /run with settings %s/%s" % (h["m"], h["sc"]), eff, bad)
        elif op == "SetProp":
            b.get_scenario(h["m"], h["sc"]).set_property_value("k", float(h["k"]))
            b.reset_scenario_cache(scenario_manager=h["m"], scenario=h["sc"])
        elif op == "Begin":
            sc = b.get_scenario(h["m"], h["sc"])
            st = self.settings(h)
            sibs = sorted(tuple(p) for p in (h.get("sibs") or []))
            mgrs = [h["m"]] + sorted({p[0] for p in sibs} - {h["m"]})
            names_ = [h["sc"]] + sorted({p[1] for p in sibs} - {h["sc"]})
            b.begin_session(scenarios=names_, scenario_managers=mgrs, equations=EQS,
                            settings=({h["m"]: {h["sc"]: st}} if st else {}), dt=None)
            self.steps = (h["m"], h["sc"], [])
            self.sib_steps = {p: [] for p in sibs}
        elif op == "Step":
            m, sc, log = self.steps
            st = self.settings(h)
            res = b.run_step(settings=({m: {sc: st}} if st else {}))
            log.append((h["res"]["k"], h["res"]["tab"]))
            start, stop, dt = RS[h["res"]["rs"]]
            # expected: the recurrence with the settings in force at each step so far
            s, exp = 0.0, None
            for i, (k, tab) in enumerate(log):
                t = start + i * dt
                lk = lookup(t, TABS[tab])
                exp = {"s": {t: s}, "k": {t: float(k)}, "lk": {t: lk}, "f": {t: max(0.0, k + lk)}}
                s = s + dt * max(0.0, k + lk)
            if res is None or "msg" in res:
                return ("run_step %d of %s/%s" % (len(log), m, sc), exp, res)
            bad = same(res[m][sc], exp)
            if bad:
                return ("run_step %d of %s/%s (settings so far %s)" % (len(log), m, sc, log), exp, bad)
            # the other scenarios of the session: each is stepped with its own settings, whatever sc was sent
            for rec in (h.get("sibs") or []):
                m2, y, eff = rec["m"], rec["sc"], rec["eff"]
                ylog = self.sib_steps[(m2, y)]
                ylog.append((eff["k"], eff["tab"]))
                ys, yexp = 0.0, None
                for i, (k, tab) in enumerate(ylog):
                    t = start + i * dt
                    lk = lookup(t, TABS[tab])
                    yexp = {"s": {t: ys}, "k": {t: float(k)}, "lk": {t: lk}, "f": {t: max(0.0, k + lk)}}
                    ys = ys + dt * max(0.0, k + lk)
                if y not in res.get(m2, {}):
                    return ("run_step %d: scenario %s/%s of the session is missing from the result" % (len(log), m2, y), yexp, list(res.get(m2, {})))
                bad = same(res[m2][y], yexp)
                if bad:
                    return ("run_step %d: scenario %s/%s stepped alongside %s/%s (which got %s)" % (len(log), m2, y, m, sc, log), yexp, bad)
        elif op == "End":
            b.end_session()
            self.steps = None
        elif op == "ResetCache":
            b.reset_scenario_cache(scenario_manager=h["m"], scenario=h["sc"])
        else:
            return ("unknown op", op, None)
        return self.probe(h)


def replay(hist, with_server=True):
    w = World(with_server)
    try:
        for n, h in enumerate(hist):
            try:
                bad = w.apply(h)
            except Exception as e:
                bad = ("exception in %s" % h["op"], "no exception", "%s: %s" % (type(e).__name__, str(e)[:200]))
            if bad:
                return {"step": n, "op": {a: b for a, b in h.items() if a not in ("all", "base")}, "clause": bad[0], "expected": bad[1], "observed": bad[2],
                        "prefix": [{a: b for a, b in x.items() if a not in ("all", "base")} for x in hist[:n + 1]]}
        return None
    finally:
        w.close()


# ---------------------------------------------------------------------------------------------------
# file channel: managers and scenarios delivered through JSON scenario files (spread over two files),
# the model being the XMILE source of the same reference model
def ref_stmx():
    from . import xmile_gen as X
    from xml.sax.saxutils import escape
    pts = TABS["A"]
    v = [X.aux("k", "1"),
         '\t\t\t<aux name="lk">\n\t\t\t\t<eqn>TIME</eqn>\n\t\t\t\t<gf>\n\t\t\t\t\t<xscale min="0" max="10"/>\n\t\t\t\t\t<ypts>0,10</ypts>\n\t\t\t\t</gf>\n\t\t\t</aux>\n',
         '\t\t\t<flow name="f">\n\t\t\t\t<eqn>k+lk</eqn>\n\t\t\t\t<non_negative/>\n\t\t\t</flow>\n',
         '\t\t\t<stock name="s">\n\t\t\t\t<eqn>0</eqn>\n\t\t\t\t<inflow>f</inflow>\n\t\t\t</stock>\n']
    return X.document("ref", v, start="1", stop="5", dt="<dt>1</dt>")


class FileWorld(World):
    """registration ops at the head of the history are written as scenario files before bptk() is constructed"""

    def __init__(self, hist, workdir, layout="split"):
        import os
        self.BPTK_Py = use_repo()
        self.base = base_model()          # only used for the base probe (never registered here)
        os.makedirs(os.path.join(workdir, "scenarios"), exist_ok=True)
        os.makedirs(os.path.join(workdir, "simulation_models"), exist_ok=True)
        with open(os.path.join(workdir, "simulation_models", "ref.stmx"), "w") as f:
            f.write(ref_stmx())
        mgrs = {}
        self.nreg = 0
        for h in hist:
            if h["op"] == "RegMgr":
                mgrs[h["m"]] = {"bk": h["bk"], "bt": h["bt"], "scenarios": {}}
            elif h["op"] == "Register":
                mgrs[h["m"]]["scenarios"][h["sc"]] = self.settings(h)
            else:
                break
            self.nreg += 1
        # every manager is spread over two files: file 1 declares the base constants and the first half of the scenarios,
        # file 2 the base points and the other half, so whichever file is read first, some scenario needs a base value
        # that is declared in the other file
        f1, f2 = {}, {}
        for m, d in mgrs.items():
            head = {"source": "simulation_models/ref.stmx", "model": "simulation_models/ref_%s" % m}
            names = sorted(d["scenarios"])
            if layout == "single":      # all scenarios of a manager in one file (they are then instantiated in one pass)
                f1[m] = dict(head, scenarios={n: d["scenarios"][n] for n in names})
                f2[m] = dict(head, scenarios={})
            else:
                f1[m] = dict(head, scenarios={n: d["scenarios"][n] for n in names[::2]})
                f2[m] = dict(head, scenarios={n: d["scenarios"][n] for n in names[1::2]})
            if d["bk"] > 0: f1[m]["base_constants"] = {"k": float(d["bk"])}
            if d["bt"] != "": f2[m]["base_points"] = {"lk": [list(p) for p in TABS[d["bt"]]]}
        with open(os.path.join(workdir, "scenarios", "a_base.json"), "w") as f:
            json.dump(f1, f)
        with open(os.path.join(workdir, "scenarios", "b_scenarios.json"), "w") as f:
            json.dump(f2, f)
        import sys
        if workdir not in sys.path:
            sys.path.insert(0, workdir)
        self.b = self.BPTK_Py.bptk()
        import importlib
        srvmod = importlib.import_module("BPTK_Py.server.bptkServer")
        self.app = srvmod.BptkServer(__name__, lambda: self.b)
        self.client = self.app.test_client()
        self.steps = None
        self.done = 0

    def settings(self, h):
        d = World.settings(self, h)
        if "points" in d:
            d["points"] = {"lk": d["points"]["tab"]}      # in XMILE the graphical function belongs to the variable
        d.pop("runspecs", None)                           # run specs are a DSL-only setting
        return d

    def apply(self, h):
        if h["op"] in ("RegMgr", "Register") and self.done < self.nreg:
            self.done += 1
            return self.probe_files(h)
        bad = World.apply(self, h)
        return bad

    def probe(self, h):
        return self.probe_files(h)

    def probe_files(self, h):
        if self.done < self.nreg and h["op"] in ("RegMgr", "Register"):
            return None        # files are read as a whole: compare once all registrations of the prefix are "done"
        allm = h["all"] if isinstance(h["all"], dict) else {}
        for m, scs in allm.items():
            for sc, eff in (scs.items() if isinstance(scs, dict) else []):
                bad = same(self.run(m, sc), fresh(eff["k"], eff["tab"], "r0"))
                if bad:
                    return ("results of file scenario %s/%s after %s" % (m, sc, h["op"]), eff, bad)
        return None


def replay_files(hist, layout="split"):
    import os, sys, tempfile, shutil
    wd = tempfile.mkdtemp(prefix="vscn_")
    old = os.getcwd()
    os.chdir(wd)
    w = None
    try:
        w = FileWorld(hist, wd, layout)
        for n, h in enumerate(hist):
            try:
                bad = w.apply(h)
            except Exception as e:
                bad = ("exception in %s (file channel)" % h["op"], "no exception", "%s: %s" % (type(e).__name__, str(e)[:200]))
            if bad:
                return {"step": n, "op": {a: b for a, b in h.items() if a not in ("all", "base")}, "clause": bad[0], "expected": bad[1], "observed": bad[2],
                        "channel": "scenario files (%s layout) + XMILE source" % layout,
                        "prefix": [{a: b for a, b in x.items() if a not in ("all", "base")} for x in hist[:n + 1]]}
        return None
    finally:
        if w is not None:
            w.close()
        os.chdir(old)
        if wd in sys.path:
            sys.path.remove(wd)
        shutil.rmtree(wd, ignore_errors=True)
