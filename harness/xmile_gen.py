"""Minimal XMILE (.stmx) documents for the transpiler checks (C03, C04)."""
import importlib, importlib.util, os, sys, tempfile
from xml.sax.saxutils import escape
from .common import use_repo

HEADER = '''<?xml version="1.0" encoding="utf-8"?>
<xmile version="1.0" xmlns="http://docs.oasis-open.org/xmile/ns/XMILE/v1.0" xmlns:isee="http://iseesystems.com/XMILE">
	<header>
		<smile version="1.0" namespace="std, isee"/>
		<name>%s</name>
		<uuid>00000000-0000-0000-0000-000000000000</uuid>
		<vendor>isee systems, inc.</vendor>
		<product version="2.1" isee:build_number="2324" isee:saved_by_v1="true" lang="en">Stella Architect</product>
	</header>
	<sim_specs method="Euler" time_units="months">
		<start>%s</start>
		<stop>%s</stop>
		%s
	</sim_specs>
	<model_units/>
	<model>
		<variables>
'''
FOOTER = '''		</variables>
	</model>
</xmile>
'''


def document(name, variables, start="1", stop="3", dt="<dt>1</dt>", modules=None):
    """variables: list of xml snippets of the root model; modules: {module name: list of xml snippets}"""
    root = list(variables)
    extra = ""
    for mname, mvars in (modules or {}).items():
        root.append('\t\t\t<module name="%s"/>\n' % mname)
        extra += '\t<model name="%s">\n\t\t<variables>\n%s\t\t</variables>\n\t</model>\n' % (mname, "".join(mvars))
    text = HEADER % (name, start, stop, dt) + "".join(root) + FOOTER
    if extra:
        text = text.replace("</xmile>", extra + "</xmile>")
    return text


def aux(name, eqn):
    return '\t\t\t<aux name="%s">\n\t\t\t\t<eqn>%s</eqn>\n\t\t\t</aux>\n' % (escape(name, {'"': "&quot;"}), escape(eqn))


_n = [0]


def compile_doc(text, workdir):
    """compile the document with the real transpiler and return a fresh simulation_model() instance"""
    use_repo()
    from BPTK_Py.sdcompiler.compile import compile_xmile
    _n[0] += 1
    base = "vx_%d_%d" % (os.getpid(), _n[0])
    src = os.path.join(workdir, base + ".stmx")
    dest = os.path.join(workdir, base + ".py")
    with open(src, "w") as f:
        f.write(text)
    compile_xmile(src, dest, "py")
    spec = importlib.util.spec_from_file_location(base, dest)
    mod = importlib.util.module_from_spec(spec)
    spec.loader.exec_module(mod)
    return mod.simulation_model(), dest
