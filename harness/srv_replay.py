"""Replays Server.tla histories into a real BptkServer and compares every response."""
from . import srv_adapter as S


def _row_eq(exp, got):
    if "msg" in exp:
        return got.get("msg") == exp["msg"]
    return all(k in got and abs(float(got[k]) - float(exp[k])) < 1e-9 for k in ("t", "s", "f", "k"))


def session_probe(srv, i, sc):
    """project the in-memory session of instance i: (clock, settings log as list of k values; 0 = none/empty)"""
    inst = srv.app._instance_manager._instances.get(srv.uid(i))
    if inst is None or inst["instance"].session_state is None:
        return 0, [], {}
    st = inst["instance"].session_state
    keys = {name: sorted(S.spec_t(k) for k in (st.get(name) or {})) for name in ("settings_log", "results_log")}
    log = st["settings_log"]
    out = []
    for key in sorted(log, key=lambda x: float(x)):
        v = log[key]
        try:
            out.append(int(v["sm"][S.nm(sc)]["constants"]["k"]) if v else 0)
        except Exception:
            out.append("?%s" % (v,))
    return S.spec_t(st["step"]), out, keys


def replay(hist, *, stop, adapter, unit="seconds", compress=False, srv=None, tear=None, base_constants=False, observe=None, probe=False, known=None, two=False,
           grid=(1.0, 1.0), files=False, names=None, shared=False):
    """returns None when the real server answers as the history says, else a dict describing the first mismatch.
    Expected values are the *intended* ones (`want`) when the history carries them."""
    own = srv is None
    srv = srv or S.Srv(stop=stop, adapter=adapter, compress=compress, unit=unit, base_constants=base_constants, two=two, grid=grid, files=files, names=names, shared=shared)
    sess = {}       # symbolic id -> scenario of the current session (for projections)
    stopped = set()
    try:
        for n, h in enumerate(hist):
            op = h["op"]
            bad = None
            st = d = None

            def mism(clause, exp, got):
                return {"step": n, "op": {k: v for k, v in h.items() if k not in ("rows", "want", "row")}, "clause": clause,
                        "expected": exp, "observed": got,
                        "prefix": [{k: v for k, v in x.items() if k not in ("rows", "want", "row", "alive", "steps")} for x in hist[:n + 1]]}
            def do_probe():
                if "clock" not in h:
                    return None
                clock, slog, keys = session_probe(srv, h["i"], sess.get(h["i"], "base"))
                if abs(clock - h["clock"]) > 1e-9:
                    return mism("session clock", h["clock"], clock)
                # the step-keyed logs of the live session are keyed by exactly the grid times of the steps taken so far
                # (in step numbers: 1 .. clock-1); the compressed format renumbers them, which is KF-C19-1
                if not compress:
                    for name, ks in keys.items():
                        want_keys = [float(j) for j in range(1, int(round(h["clock"])))]
                        if len(ks) != len(want_keys) or any(abs(a - b) > 1e-9 for a, b in zip(ks, want_keys)):
                            return mism("step keys of the session's %s (in step numbers)" % name, want_keys, ks)
                if slog != list(h["slog"]):
                    # the compressed format keeps one value list per constant and renumbers from 1.0:
                    # steps without settings vanish from the log (D15)
                    if known is not None and compress and list(h["slogF"]) != list(h["slog"]) and slog == list(h["slogF"]):
                        known.append(("D15_compress_lossy", n, list(h["slog"]), slog))
                        return None
                    return mism("settings log", list(h["slog"]), slog)
                return None
            if op == "Tick":
                srv.tick(h["d"])
                continue
            if op == "Start":
                st, d = srv.start(h["i"], h["to"])
                if st != 200:
                    bad = mism("start-instance status", 200, (st, d))
                stopped.discard(h["i"])
            elif op == "StartMany":
                st, d = srv.start_many(list(h["is"]), h["to"])
                if st != 200:
                    bad = mism("start-instances status", 200, (st, d))
                for i in h["is"]:
                    stopped.discard(i)
            elif op == "Begin":
                st, d = srv.begin(h["i"], h["sc"], h["kv"])
                if (st == 200) != (h["status"] == 200):
                    bad = mism("begin-session status", h["status"], (st, d))
                if st == 200:
                    sess[h["i"]] = h["sc"]
            elif op == "End":
                st, d = srv.req("POST", "/%s/end-session" % srv.uid(h["i"]))
                if (st == 200) != (h["status"] == 200):
                    bad = mism("end-session status", h["status"], (st, d))
                sess.pop(h["i"], None)
            elif op == "Step":
                sc = sess.get(h["i"], "base")
                st, d = srv.step(h["i"], h["set"], sc)
                if (st == 200) != (h["status"] == 200):
                    bad = mism("run-step status", h["status"], (st, d))
                elif st == 200:
                    want = h.get("want", h["row"])
                    got = S.row_of(d, sc, srv.two)
                    if not _row_eq(want, got):
                        if known is not None and want != h["row"] and _row_eq(h["row"], got):
                            known.append(("D16b_no_replay", n, want, got))      # exactly the listed deviation's prediction
                        else:
                            bad = mism("run-step result", want, got)
                            bad["faithful_prediction"] = h["row"]
                    if bad is None and probe:
                        bad = do_probe()
            elif op == "StepLost":
                if not srv.step_lost(h["i"], h["set"], sess.get(h["i"], "base"), h["frac"]):
                    return None         # this adapter does not install by rename: the fault cannot be placed, nothing to compare
                if observe is not None:
                    observe.append((n, op, h["i"], None, h["frac"]))
                continue
            elif op == "Steps":
                sc = sess.get(h["i"], "base")
                st, d = srv.steps(h["i"], h["n"], h["set"], sc)
                if (st == 200) != (h["status"] == 200):
                    bad = mism("run-steps status", h["status"], (st, d))
                elif st == 200:
                    want = h.get("want", h["rows"])
                    got = [S.row_of(x, sc, srv.two) for x in d] if isinstance(d, list) else [{"bad": str(d)[:200]}]
                    ok = len(got) == len(want) and all(_row_eq(w, g) for w, g in zip(want, got))
                    if not ok and known is not None and list(want) != list(h["rows"]) and len(got) == len(h["rows"]) \
                            and all(_row_eq(w, g) for w, g in zip(h["rows"], got)):
                        known.append(("D16b_no_replay", n, want, got))
                        ok = True
                    if not ok:
                        bad = mism("run-steps result", want, got)
                        bad["faithful_prediction"] = h["rows"]
                    elif probe:
                        bad = do_probe()
            elif op in ("StreamOpen", "StreamNext", "StreamClose"):
                sc = sess.get(h["i"], "base")
                if op == "StreamOpen":
                    st, d = srv.stream_open(h["i"], h["set"], sc)
                elif op == "StreamNext":
                    st, d = srv.stream_next(h["i"])
                else:
                    st, d = srv.stream_close(h["i"])
                if (st == 200) != (h["status"] == 200):
                    bad = mism("stream-steps status (%s)" % op, h["status"], (st, d))
                elif st == 200 and op != "StreamClose":
                    want = h.get("want", h["row"])
                    got = S.row_of(d, sc, srv.two)
                    if not _row_eq(want, got):
                        if known is not None and want != h["row"] and _row_eq(h["row"], got):
                            known.append(("D16b_no_replay", n, want, got))      # exactly the listed deviation's prediction
                        else:
                            bad = mism("stream-steps result (%s)" % op, want, got)
                            bad["faithful_prediction"] = h["row"]
            elif op == "Results":
                sc = sess.get(h["i"], "base")
                st, d = srv.req("GET", "/%s/session-results" % srv.uid(h["i"]))
                if (st == 200) != (h["status"] == 200):
                    bad = mism("session-results status", h["status"], (st, d))
                elif st == 200:
                    want = h.get("want", h["rows"])
                    got = S.rows_of(d, sc, srv.two)
                    ok = len(got) == len(want) and all(_row_eq(w, g) for w, g in zip(want, got))
                    if not ok and known is not None and list(want) != list(h["rows"]) and len(got) == len(h["rows"]) \
                            and all(_row_eq(w, g) for w, g in zip(h["rows"], got)):
                        known.append(("D16b_no_replay", n, want, got))
                        ok = True
                    if not ok:
                        bad = mism("session-results content", want, got)
                        bad["faithful_prediction"] = h["rows"]
                    elif probe:
                        bad = do_probe()
            elif op == "KeepAlive":
                st, d = srv.req("POST", "/%s/keep-alive" % srv.uid(h["i"]))
                if (st == 200) != (h["status"] == 200):
                    bad = mism("keep-alive status", h["status"], (st, d))
            elif op == "Stop":
                st, d = srv.req("POST", "/%s/stop-instance" % srv.uid(h["i"]))
                if st != 200:
                    bad = mism("stop-instance status", 200, (st, d))
                sess.pop(h["i"], None)
                stopped.add(h["i"])
            elif op == "Metrics":
                st, al, steps, raw = srv.alive()
                d = None
                with_sess = sorted(i for i in h["alive"] if h["steps"][i] > 0)   # metrics list instances that have a session
                if st != 200 or al != with_sess:
                    bad = mism("full-metrics instances (with a session)", with_sess, al)
                elif raw.get("instanceCount") != len(h["alive"]):
                    bad = mism("full-metrics instanceCount", len(h["alive"]), raw.get("instanceCount"))
                elif any(abs(float(steps[i]) - h["steps"][i]) > 1e-9 for i in with_sess):
                    bad = mism("full-metrics session clocks", h["steps"], steps)
                else:       # "its resources released": a swept instance had bptk.destroy() called
                    live = srv.app._instance_manager._instances
                    for i, uid in srv.ids.items():
                        if i not in stopped and uid not in live and uid in srv.watched and not srv.destroy_calls.get(uid):
                            bad = mism("bptk.destroy() of swept instance " + i, ">= 1 call", 0)
            elif op == "SaveState":
                st, d = srv.req("GET", "/save-state")
                if st != 200:
                    bad = mism("save-state status", 200, (st, str(d)[:200]))
            elif op == "LoadState":
                st, d = srv.req("POST", "/load-state")
                srv.rewatch()
                if st != 200:
                    bad = mism("load-state status", 200, (st, str(d)[:200]))
            elif op == "Crash":
                try:
                    srv.crash()
                except Exception as e:
                    bad = mism("server restart", "server starts", "%s: %s" % (type(e).__name__, e))
            elif op == "Tear":
                try:
                    (tear or default_tear)(srv, h["i"])
                except FileNotFoundError:
                    # the specification tears a state file only where one exists: the instance was externalised
                    bad = mism("externalised state of instance %s" % h["i"], "a state file", "no state file")
            else:
                bad = mism("unknown op", op, None)
            if observe is not None and op not in ("Tick", "Tear", "Crash"):
                observe.append((n, op, h.get("i"), st, d if op != "Start" else None))
            if bad:
                return bad
        return None
    finally:
        if own:
            srv.close()


def default_tear(srv, i):
    import os
    p = os.path.join(srv.state_dir, srv.uid(i) + ".json")
    with open(p) as f:
        data = f.read()
    with open(p, "w") as f:
        f.write(data[: len(data) // 2])
