"""Thin driver around TLC: write a cfg, run, parse statistics / emitted JSON lines / violations."""
import json, os, re, shutil, subprocess, tempfile, time

SPEC_DIR = os.path.join(os.path.dirname(os.path.dirname(os.path.abspath(__file__))), "spec")
JAR = "/opt/veriftools/tla/tla2tools.jar:/opt/veriftools/tla/CommunityModules-deps.jar"


class TlcError(Exception):
    """machinery failure (exit 2), never a property violation"""


class TlcResult:
    def __init__(self):
        self.out = ""
        self.generated = 0
        self.distinct = 0
        self.depth = 0
        self.emitted = []       # parsed JSON values printed by the spec (PrintT(ToJson(..)))
        self.violation = None   # name of violated invariant / property, "Deadlock", or None
        self.trace = ""         # TLC's textual counterexample
        self.wall = 0.0
        self.coverage = {}      # action name -> (total, distinct) when -coverage was on
        self.cmd = ""


def _parse(out, res):
    for line in out.splitlines():
        if line.startswith('"[') or line.startswith('"{'):
            try:
                res.emitted.append(json.loads(json.loads(line)))
            except Exception as e:  # torn line: machinery error
                raise TlcError("unparseable emitted line: %r (%s)" % (line[:200], e))
    m = re.findall(r"(\d+) states generated, (\d+) distinct states found", out)
    if m:
        res.generated, res.distinct = int(m[-1][0]), int(m[-1][1])
    m = re.findall(r"The number of states generated: (\d+)", out)   # simulation mode
    if m and not res.generated:
        res.generated = int(m[-1]); res.distinct = res.generated
    m = re.findall(r"depth of the complete state graph search is (\d+)", out)
    if m:
        res.depth = int(m[-1])
    m = re.search(r"Error: Invariant (\S+) is violated", out)
    if m:
        res.violation = m.group(1)
    m2 = re.search(r"Error: Action property (\S+) is violated", out)
    if m2:
        res.violation = m2.group(1)
    if "Error: Deadlock reached" in out:
        res.violation = "Deadlock"
    if "Temporal properties were violated" in out:
        res.violation = res.violation or "Temporal"
    if res.violation:
        i = out.find("Error:")
        res.trace = out[i:i + 20000]
    # coverage lines:  <Action line .. of module X>: total:distinct
    for m in re.finditer(r"<(\w+) line \d+, col \d+ to line \d+, col \d+ of module (\w+)>: (\d+):(\d+)", out):
        name, dist, tot = m.group(1), int(m.group(3)), int(m.group(4))
        a = res.coverage.get(name, (0, 0))
        res.coverage[name] = (a[0] + dist, a[1] + tot)      # (distinct states found, states generated)
    return res


def run(module, consts=None, *, workers=None, simulate=None, depth=None, seed=None, timeout=900,
        coverage=False, env=None, extra=(), expect_error=False, deadlock=False, defs="", emit_filter=None, **cfgkw):
    """module: name of a module in spec/.  consts: dict constant name -> TLA+ expression text; they are
    written as definitions into a generated wrapper module MC (so sequences, records etc. are allowed).
    defs: extra TLA+ definitions for the wrapper.  cfgkw: see cfg().
    simulate: number of behaviours (TLC -simulate num=..) or None for BFS."""
    work = tempfile.mkdtemp(prefix="vtlc_")
    try:
        consts = consts or {}
        with open(os.path.join(work, "MC.tla"), "w") as f:
            f.write("---- MODULE MC ----\nEXTENDS %s\n" % module)
            for k, v in consts.items():
                f.write("MC_%s == %s\n" % (k, v))
            f.write(defs + "\n====\n")
        cfgp = os.path.join(work, "MC.cfg")
        with open(cfgp, "w") as f:
            f.write(cfg({k: ("<-", "MC_" + k) for k in consts}, **cfgkw))
        w = str(workers or (1 if simulate else min(16, os.cpu_count() or 4)))
        cmd = ["java", "-XX:+UseParallelGC", "-Xmx6g", "-Xss64m", "-DTLA-Library=" + SPEC_DIR, "-cp", JAR, "tlc2.TLC",
               "-workers", w, "-metadir", os.path.join(work, "meta"), "-noGenerateSpecTE", "-config", cfgp]
        if not deadlock:
            cmd += ["-deadlock"]
        if simulate:
            cmd += ["-simulate", "num=%d" % simulate, "-depth", str(depth or 20)]
            if seed is not None:
                cmd += ["-seed", str(seed)]
        if coverage:
            cmd += ["-coverage", "1"]
        cmd += list(extra) + [os.path.join(work, "MC.tla")]
        e = dict(os.environ)
        if env:
            e.update(env)
        t0 = time.time()
        # TLC's output goes to a file and is read line by line: in simulation mode TLC evaluates the Emit invariant on every
        # successor of the last state, which multiplies the printed histories (gigabytes for long histories); emitted lines
        # are filtered while reading (emit_filter), everything else is kept as text
        outp = os.path.join(work, "tlc.out")
        try:
            with open(outp, "w") as fo:
                p = subprocess.run(cmd, cwd=work, stdout=fo, stderr=subprocess.STDOUT, text=True, timeout=timeout, env=e)
        except subprocess.TimeoutExpired:
            raise TlcError("TLC timed out after %ss: %s" % (timeout, " ".join(cmd)))
        res = TlcResult()
        res.wall = time.time() - t0
        text = []
        with open(outp, errors="replace") as fi:
            for line in fi:
                if line.startswith('"[') or line.startswith('"{'):
                    if emit_filter is None or emit_filter(line):
                        try:
                            res.emitted.append(json.loads(json.loads(line)))
                        except Exception as ex:  # torn line: machinery error
                            raise TlcError("unparseable emitted line: %r (%s)" % (line[:200], ex))
                else:
                    text.append(line)
        res.out = "".join(text)
        res.cmd = " ".join(cmd)
        _parse(res.out, res)
        bad = ("Parsing or semantic analysis failed" in res.out or "Error: TLC threw" in res.out
               or "ConfigFileException" in res.out
               or "Error: Evaluating" in res.out or "Error: In evaluation" in res.out
               or "Overflow when computing" in res.out
               or ("Error:" in res.out and not res.violation))
        if bad and not expect_error:
            i = res.out.find("Error:")
            lines = [l[:400] for l in res.out[max(i, 0):].splitlines() if not l.startswith('"[') and not l.startswith("  |")]
            raise TlcError("TLC failed on %s:\n%s" % (module, "\n".join(lines[:60])))
        if p.returncode != 0 and not res.violation and not expect_error:
            raise TlcError("TLC exit %d on %s:\n%s" % (p.returncode, module, res.out[-4000:]))
        return res
    finally:
        shutil.rmtree(work, ignore_errors=True)


def sany(module):
    cmd = ["java", "-cp", JAR, "tla2sany.SANY", os.path.join(SPEC_DIR, module + ".tla")]
    p = subprocess.run(cmd, cwd=SPEC_DIR, capture_output=True, text=True)
    ok = p.returncode == 0 and "Semantic errors" not in p.stdout and "Fatal errors" not in p.stdout \
        and "Could not parse" not in p.stdout and "*** Errors" not in p.stdout
    return ok, p.stdout + p.stderr


def cfg(constants=None, init="Init", next="Next", invariants=(), properties=(), constraints=(),
        action_constraints=(), view=None, spec=None, postcondition=None, symmetry=None):
    """Build cfg text.  constants: dict name -> TLA literal text (sets as {..}, strings quoted)."""
    lines = []
    if spec:
        lines.append("SPECIFICATION " + spec)
    else:
        lines.append("INIT " + init)
        lines.append("NEXT " + next)
    if constants:
        lines.append("CONSTANTS")
        for k, v in constants.items():
            if isinstance(v, tuple) and v[0] == "<-":
                lines.append("  %s <- %s" % (k, v[1]))
            else:
                lines.append("  %s = %s" % (k, v))
    for i in invariants:
        lines.append("INVARIANT " + i)
    for p in properties:
        lines.append("PROPERTY " + p)
    for c in constraints:
        lines.append("CONSTRAINT " + c)
    for c in action_constraints:
        lines.append("ACTION_CONSTRAINT " + c)
    if view:
        lines.append("VIEW " + view)
    if postcondition:
        lines.append("POSTCONDITION " + postcondition)
    if symmetry:
        lines.append("SYMMETRY " + symmetry)
    return "\n".join(lines) + "\n"


def tla(v):
    """Python value -> TLA+ literal text (for cfg constants)."""
    if isinstance(v, bool):
        return "TRUE" if v else "FALSE"
    if isinstance(v, int):
        return str(v)
    if isinstance(v, str):
        return '"%s"' % v
    if isinstance(v, (set, frozenset)):
        return "{" + ", ".join(sorted(tla(x) for x in v)) + "}"
    if isinstance(v, (list, tuple)):
        return "<<" + ", ".join(tla(x) for x in v) + ">>"
    if isinstance(v, dict):
        return "[" + ", ".join("%s |-> %s" % (k, tla(x)) for k, x in v.items()) + "]"
    raise TypeError(v)
