"""./check <property id> [--tier quick|thorough] [--replay file]"""
import argparse, importlib, os, sys, traceback

sys.path.insert(0, os.path.dirname(os.path.dirname(os.path.abspath(__file__))))
os.environ.setdefault("PYTHONHASHSEED", "0")


def main():
    ap = argparse.ArgumentParser()
    ap.add_argument("prop")
    ap.add_argument("--tier", default=os.environ.get("VERIF_TIER", "quick"), choices=["quick", "thorough"])
    ap.add_argument("--replay", default=None)
    a = ap.parse_args()
    from harness import common, tlc
    try:
        mod = importlib.import_module("harness.props." + a.prop.lower())
    except ImportError as e:
        print("no check for", a.prop, e)
        return 2
    try:
        with common.scratch_cwd():
            return mod.run(a.tier, a.replay)
    except (common.Machinery, tlc.TlcError) as e:
        print("MACHINERY-FAILURE", a.prop, str(e)[:6000])
        return 2
    except Exception:
        traceback.print_exc()
        print("MACHINERY-FAILURE", a.prop, "unexpected exception")
        return 2


if __name__ == "__main__":
    sys.exit(main())
