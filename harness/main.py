"""./check <property id> [--tier quick|thorough] [--replay file]"""
import argparse, importlib, os, sys, traceback

sys.path.insert(0, os.path.dirname(os.path.dirname(os.path.abspath(__file__))))
os.environ.setdefault("PYTHONHASHSEED", "0")


def _quiet_monitors():
    """file / model monitor threads of bptk objects outlive the scratch directories they watch: their complaints are noise"""
    import threading
    default = threading.excepthook

    def hook(args):
        tb = args.exc_traceback
        while tb is not None:
            if "modelmonitor" in tb.tb_frame.f_code.co_filename:
                return
            tb = tb.tb_next
        default(args)
    threading.excepthook = hook


def main():
    _quiet_monitors()
    ap = argparse.ArgumentParser()
    ap.add_argument("prop")
    ap.add_argument("--tier", default=os.environ.get("VERIF_TIER", "quick"), choices=["quick", "thorough"])
    ap.add_argument("--replay", default=None)
    a = ap.parse_args()
    from harness import common, tlc
    try:
        mod = importlib.import_module("harness.props." + a.prop.lower())
    except ImportError as e:
        print("no check for", a.prop, e)
        return 2
    try:
        with common.scratch_cwd():
            return mod.run(a.tier, a.replay)
    except (common.Machinery, tlc.TlcError) as e:
        print("MACHINERY-FAILURE", a.prop, str(e)[:6000])
        return 2
    except Exception:
        traceback.print_exc()
        print("MACHINERY-FAILURE", a.prop, "unexpected exception")
        return 2


if __name__ == "__main__":
    rc = main()
    sys.stdout.flush(); sys.stderr.flush()
    os._exit(rc or 0)       # bptk objects that read scenario files start non-daemon file-monitor threads: do not wait for them
