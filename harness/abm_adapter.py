"""Replay adapter for spec/Abm.tla: drives a real BPTK_Py Model with instrumented agent / model /
data-collector subclasses and projects its state to the observations the specification logs."""
from .common import use_repo

UNIT = [100.0]      # units of the specification per time unit (Abm.tla Unit)

STATES = ["active", "idle"]


def build(types, dt100, stop=1000, spawn=None, default_v=2):
    spawn = spawn or {}
    BPTK_Py = use_repo()
    from BPTK_Py import Model, Agent, Event, DelayedEvent, DataCollector, SimultaneousScheduler

    class RefCollector(DataCollector):
        def collect_agent_statistics(self, time, agents):
            self.model_ref._calls.append("collect")
            self.model_ref._collect_times.append(time)
            return super().collect_agent_statistics(time, agents)

    class RefAgent(Agent):
        def initialize(self):
            if getattr(self.model, "_fail_next", False):        # fault injection: this agent's initialisation fails
                self.model._fail_next = False
                raise RuntimeError("initialize failed")
            self.register_event_handler(["active", "idle"], "ping", self.on_event)
            self.register_event_handler(["active"], "pong", self.on_event)
            for kid in spawn.get(self.agent_type, ()):      # e.g. a firm hiring its employees
                self.model.create_agent(kid, prop_v(default_v))

        def on_event(self, event):
            self.model._handled.append((self.id, event.data["eid"]))

        def handle_events(self, time, sim_round, step):
            self.model._calls.append("h%d" % self.id)
            return super().handle_events(time, sim_round, step)

        def act(self, time, round_no, step_no):
            m = self.model
            m._calls.append("a%d" % self.id)
            for p in m._plan:
                if p.get("snd") == self.id and p["k"] == m._stepidx:
                    if p["op"] == "Plan":
                        m.enqueue_event(make_event(p, self.id))
                    elif p["op"] == "PlanSet":
                        if p["kind"] == "st":
                            self.state = p["x"]
                        elif p["kind"] == "w":      # the agent gives itself a numeric property it may not have had
                            self.set_property("w", pval(p["x"]))
                        else:
                            self.v = val(p["x"])
                    elif p["op"] == "PlanDel":
                        m.delete_agent(p["victim"])
                    elif p["op"] == "PlanNew":
                        if m.next_agent_id + 1 + len(spawn.get(p["ty"], ())) <= m._max_ids:
                            m.create_agent(p["ty"], prop_v(default_v))

    def make_event(p, sender):
        d = p["d"] / UNIT[0]
        if p["d"] > 0 or p.get("delayed"):
            return DelayedEvent(p["name"], sender, p["rcv"], d, data={"eid": p["eid"]})
        return Event(p["name"], sender, p["rcv"], data={"eid": p["eid"]})

    class RefModel(Model):
        def begin_round(self, time, sim_round, step):
            self._calls.append("begin")
            self._times.append(time)
            for p in self._plan:            # events the model itself sends at the beginning of the round
                if p["op"] == "PlanBegin" and p["k"] == self._stepidx:
                    self.enqueue_event(make_event(p, None))

        def end_round(self, time, sim_round, step):
            self._calls.append("end")
            for p in self._plan:            # what the model itself does at the end of the round
                if p["op"] == "PlanEnd" and p["k"] == self._stepidx:
                    ag = self.agent(p["target"])
                    if ag is not None:
                        if p["kind"] == "est":
                            ag.state = p["x"]
                        else:
                            ag.v = val(p["x"])
            self._stepidx += 1

    dc = RefCollector()
    m = RefModel(starttime=0, stoptime=stop, dt=dt100 / UNIT[0], name="ref",
                 scheduler=SimultaneousScheduler(), data_collector=dc)
    dc.model_ref = m
    m._calls, m._times, m._handled, m._plan, m._stepidx, m._collect_times = [], [], [], [], 0, []
    for ty in types:
        m.register_agent_factory(ty, (lambda t: lambda agent_id, model, properties: RefAgent(agent_id, model, properties, t))(ty))
    m._make_event = make_event
    m._max_ids = 10 ** 9
    return m


NO_W = -999

# Value embedding.  Abm.tla talks about abstract numbers (small integers, "halves"); the statistics are sums, minima, maxima
# and a quotient, so any affine, order-preserving embedding x -> K*x + C of the abstract numbers into the implementation's
# numbers commutes with them: total = K*total_spec + C*count, min/max = K*m + C.  EMB None: Double x/2 (K = 1/2, C = 0).
# EMB (K, C) with integers: an Integer property K*x + C - used with K = 2**53 so that the totals only stay equal to the
# population's sum if they are accumulated exactly (TLC's 32-bit integers never see the large numbers).
EMB = [None]


def val(x):
    return x / 2.0 if EMB[0] is None else EMB[0][0] * x + EMB[0][1]


def pval(x):
    return {"type": "Double" if EMB[0] is None else "Integer", "value": val(x)}


def agg(k, x, count):
    """embedding of the specification's aggregate k ('total' / 'min' / 'max') over `count` agents"""
    if EMB[0] is None:
        return float(x)
    return EMB[0][0] * x + EMB[0][1] * (count if k == "total" else 1)


def prop_v(v, w=None):
    """properties of a reference agent: v always, the second numeric property w only if given (values in halves)"""
    d = {"v": pval(v)}
    if w is not None and w != NO_W:
        d["w"] = pval(w)
    return d


def queries(m, types):
    """call every registry query; exceptions are observations"""
    def safe(f):
        try:
            return f()
        except Exception as e:
            return "EXC:" + type(e).__name__
    nid = m.next_agent_id
    q = {"ids": {}, "cnt": {}, "cps": {}, "nxt": {}, "look": [], "nid": nid}
    for ty in types:
        q["ids"][ty] = safe(lambda: list(m.agent_ids(ty)))
        q["cnt"][ty] = safe(lambda: m.agent_count(ty))
        q["cps"][ty] = {st: safe(lambda: m.agent_count_per_state(ty, st)) for st in STATES}
        def nxt(st):
            a = m.next_agent(ty, st)
            return -1 if a is None else a.id
        q["nxt"][ty] = {st: safe(lambda: nxt(st)) for st in STATES}
    for i in range(nid + 1):
        def look():
            a = m.agent(i)
            if a is None:
                return {"ty": "none", "st": "none"}
            if a.id != i:
                return {"ty": "WRONG-ID-%s" % a.id, "st": a.state}
            return {"ty": a.agent_type, "st": a.state}
        q["look"].append(safe(look))
    return q


def stats_at(m, t, types):
    """project DataCollector statistics at time key t to the spec's [ty][st] -> count,total,min,max (v in halves)"""
    st = m.statistics()
    key = None
    for k in st:
        if abs(k - t) < 1e-9:
            key = k
    out = {}
    row = st.get(key, {}) if key is not None else None
    if row is None:
        return None
    for ty in types:
        out[ty] = {}
        for s in STATES:
            cell = row.get(ty, {}).get(s)
            if cell is None:
                out[ty][s] = {"count": 0, "total": 0, "min": 0, "max": 0, "w": None}
            else:
                v = cell.get("v")
                if v is None:
                    out[ty][s] = {"count": cell["count"], "total": None, "min": None, "max": None, "mean": None}
                else:
                    f = 2 if EMB[0] is None else 1          # (embedded values are compared as they are, see agg())
                    out[ty][s] = {"count": cell["count"], "total": v["total"] * f, "min": v["min"] * f,
                                  "max": v["max"] * f, "mean": v["mean"] * f}
                w = cell.get("w")
                f = 2 if EMB[0] is None else 1
                out[ty][s]["w"] = None if w is None else {"total": w["total"] * f, "min": w["min"] * f, "max": w["max"] * f, "mean": w["mean"] * f}
    return out
