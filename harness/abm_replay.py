"""Replays Abm.tla histories into the real engine and compares observations after every action."""
import math
from . import abm_adapter as A


def _close(a, b):
    if a is None or b is None:
        return a == b
    return abs(a - b) <= 1e-9 * max(1.0, abs(a), abs(b))


def _same(e, g):
    """aggregates of an Integer property (embedded values, A.EMB) are integers and compared exactly"""
    if A.EMB[0] is not None:
        return g is not None and not isinstance(g, bool) and g == e and (isinstance(g, int) or float(g).is_integer() and int(g) == e)
    return _close(e, g)


def _strip(calls, rec):
    """an agent deleted *during* a step may or may not handle/act in that very step (it is not live for the whole step), so
    its entries are not compared.  An agent created during the step by begin_round or by another agent's act() IS live from
    then on and is the last in creation order: the loop over the live agents reaches it, so its entries are compared
    (Abm.tla StepF lets it handle and act in the step of its creation)."""
    skip = set(rec.get("gone", ()))
    if not skip:
        return list(calls)
    return [c for c in calls if not (c[0] in "ha" and c[1:].isdigit() and int(c[1:]) in skip)]


def cmp_queries(exp, got, types):
    """returns list of (clause, expected, observed)"""
    bad = []
    for ty in types:
        if got["ids"][ty] != exp["ids"][ty]:
            bad.append(("agent_ids(%s)" % ty, exp["ids"][ty], got["ids"][ty]))
        if got["cnt"][ty] != exp["cnt"][ty]:
            bad.append(("agent_count(%s)" % ty, exp["cnt"][ty], got["cnt"][ty]))
        for st in A.STATES:
            if got["cps"][ty][st] != exp["cps"][ty][st]:
                bad.append(("agent_count_per_state(%s,%s)" % (ty, st), exp["cps"][ty][st], got["cps"][ty][st]))
            if got["nxt"][ty][st] != exp["nxt"][ty][st]:
                bad.append(("next_agent(%s,%s)" % (ty, st), exp["nxt"][ty][st], got["nxt"][ty][st]))
    if got["nid"] != exp["nid"]:
        bad.append(("next_agent_id", exp["nid"], got["nid"]))
    if got["look"] != exp["look"]:
        for i, (e, g) in enumerate(zip(exp["look"], got["look"])):
            if e != g:
                bad.append(("agent(%d)" % i, e, g))
        if len(got["look"]) != len(exp["look"]):
            bad.append(("agent() range", len(exp["look"]), len(got["look"])))
    return bad


def cmp_stats(exp, got, types, where):
    bad = []
    if got is None:
        return [("statistics missing at " + where, exp, None)]
    for ty in types:
        for st in A.STATES:
            e, g = exp[ty][st], got[ty][st]
            if e["count"] != g["count"]:
                bad.append(("count[%s][%s]@%s" % (ty, st, where), e["count"], g["count"]))
                continue
            if e["count"] == 0:
                continue
            for k in ("total", "min", "max"):
                if not _same(A.agg(k, e[k], e["count"]), g[k]):
                    bad.append(("%s[%s][%s]@%s" % (k, ty, st, where), A.agg(k, e[k], e["count"]), g[k]))
            if not _close(A.agg("total", e["total"], e["count"]) / e["count"], g.get("mean")):
                bad.append(("mean[%s][%s]@%s" % (ty, st, where), A.agg("total", e["total"], e["count"]) / e["count"], g.get("mean")))
            ew, gw = e.get("w"), g.get("w")
            if ew and ew["count"] > 0:                       # the second property, over the agents that have it
                if gw is None:
                    bad.append(("property w[%s][%s]@%s is not aggregated" % (ty, st, where), ew, None))
                    continue
                for k in ("total", "min", "max"):
                    if not _same(A.agg(k, ew[k], ew["count"]), gw[k]):
                        bad.append(("w %s[%s][%s]@%s" % (k, ty, st, where), A.agg(k, ew[k], ew["count"]), gw[k]))
                if ew["count"] == e["count"] and not _close(A.agg("total", ew["total"], ew["count"]) / ew["count"], gw.get("mean")):     # mean only when every agent of the cell has w
                    bad.append(("w mean[%s][%s]@%s" % (ty, st, where), A.agg("total", ew["total"], ew["count"]) / ew["count"], gw.get("mean")))
            elif ew is not None and gw is not None:
                bad.append(("property w[%s][%s]@%s aggregated although no agent has it" % (ty, st, where), None, gw))
    return bad


def cmp_handled(exp, got, gone=()):
    gone = set(gone)
    if gone:
        exp = [h for h in exp if h["by"] not in gone]
        got = [g for g in got if g[0] not in gone]
    return _cmp_handled(exp, got)


def _cmp_handled(exp, got):
    """exp: list of {eid,by,at,seq} (spec order); got: list of (by,eid) in handling order.
    Required: same multiset of (by,eid); per agent, events with the same send step keep send order."""
    bad = []
    e_pairs = sorted((h["by"], h["eid"]) for h in exp)
    g_pairs = sorted(got)
    if e_pairs != g_pairs:
        bad.append(("handled events (agent,event)", e_pairs, g_pairs))
        return bad
    info = {h["eid"]: h for h in exp}
    for i in range(len(got)):
        for j in range(i + 1, len(got)):
            (b1, e1), (b2, e2) = got[i], got[j]
            if b1 == b2 and info[e1]["at"] == info[e2]["at"] and info[e1]["seq"] > info[e2]["seq"]:
                bad.append(("handling order at agent %d" % b1, [e2, e1], [e1, e2]))
    return bad


class Replayer:
    def __init__(self, types, dt100, default_v, spawn=None, max_ids=10 ** 9):
        self.types, self.dt100, self.default_v = sorted(types), dt100, default_v
        self.m = A.build(self.types, dt100, spawn=spawn, default_v=default_v)
        self.alias_delete = True
        self.m._max_ids = max_ids
        self.pending = {}

    def step(self, h, parts):
        """apply history entry h; returns list of mismatches (clause, expected, observed).
        parts: subset of {"q","handled","calls","stats"} to compare"""
        m, op = self.m, h["op"]
        try:
            if op == "Create":
                m.create_agent(h["ty"], A.prop_v(h["v"], h.get("w")))
            elif op == "CreateFail":
                m._fail_next = True
                try:
                    m.create_agent(h["ty"], A.prop_v(2))
                except RuntimeError:
                    pass
                m._fail_next = False
            elif op == "Delete":
                ids = list(h["ids"])
                # "delete all agents of a type" is written the way users write it: with the list agent_ids() returned
                whole = [ty for ty in self.types if sorted(m.agent_ids(ty)) == sorted(ids)] if len(ids) > 1 or self.alias_delete else []
                if whole and self.alias_delete:
                    m.delete_agents(m.agent_ids(whole[0]))
                elif len(ids) == 1:
                    m.delete_agent(ids[0])
                else:
                    m.delete_agents(ids)
                self.alias_delete = not self.alias_delete
            elif op == "Configure":
                m.configure_agents([{"name": c[0], "count": c[1], "properties": A.prop_v(c[2], c[3] if len(c) > 3 else None)} for c in h["cfg"]])
            elif op == "Reset":
                m.reset()
            elif op == "NewScheduler":
                from BPTK_Py import SimultaneousScheduler
                m.scheduler = SimultaneousScheduler()
            elif op == "SetState":
                m.agent(h["id"]).state = h["st"]
            elif op == "SetVal":
                m.agent(h["id"]).v = A.val(h["v"])
            elif op == "Send":
                m.enqueue_event(m._make_event(h, None))
            elif op in ("Plan", "PlanBegin", "PlanDel", "PlanNew", "PlanSet", "PlanEnd"):
                m._plan.append(h)
            elif op == "RunStep":
                m._calls, m._handled, m._times = [], [], []
                m.run_step(h["k"])
            elif op == "Run":
                m._calls, m._handled, m._times, m._collect_times = [], [], [], []
                m.run_specs(h["start"], h["stop"], h["dt100"] / UNIT[0])
                m.run(collect_data=h["collect"])
            else:
                return [("unknown op", op, None)]
        except Exception as e:
            return [("exception in %s" % op, "no exception", "%s: %s" % (type(e).__name__, e))]
        bad = []
        if "q" in h and "q" in parts:
            bad += cmp_queries(h["q"], A.queries(m, self.types), self.types)
        if op == "RunStep":
            if "handled" in parts:
                bad += cmp_handled(h["handled"], m._handled, h.get("gone", ()))
                if "estats" in h:       # the data collector counts exactly the events that were delivered in this step
                    t = h["t100"] / UNIT[0]
                    got = {}
                    for k, v in m.data_collector.event_statistics.items():
                        if abs(k - t) < 1e-9:
                            got = dict(v)
                    exp = {n: c for n, c in h["estats"].items() if c > 0}
                    if got != exp:
                        bad.append(("event_statistics at t=%s" % t, exp, got))
            if "calls" in parts:
                e_c, g_c = _strip(h["calls"], h), _strip(m._calls, h)
                if e_c != g_c:
                    bad.append(("callback order in step %d" % h["k"], e_c, g_c))
                if len(m._times) != 1 or not math.isclose(m._times[0], h["t100"] / UNIT[0], abs_tol=1e-9):
                    bad.append(("time of step %d" % h["k"], h["t100"] / UNIT[0], m._times))
            if "stats" in parts:
                bad += cmp_stats(h["stats"], A.stats_at(m, h["t100"] / UNIT[0], self.types), self.types, "t=%s" % (h["t100"] / UNIT[0]))
        if op == "Run":
            if "handled" in parts:
                bad += cmp_handled(h["handled"], m._handled, [g for r in h["rounds"] for g in r.get("gone", ())])
            if "calls" in parts:
                exp_calls = [c for r in h["rounds"] for c in _strip(r["calls"], r)]
                got_calls, blocks, cur = [], [], []
                for c in m._calls:          # split the observed log into per-step blocks
                    if c == "begin" and cur:
                        blocks.append(cur); cur = []
                    cur.append(c)
                if cur:
                    blocks.append(cur)
                if len(blocks) == len(h["rounds"]):
                    got_calls = [c for b, r in zip(blocks, h["rounds"]) for c in _strip(b, r)]
                else:
                    got_calls = m._calls
                if got_calls != exp_calls:
                    bad.append(("callback order of run", exp_calls[:80], got_calls[:80]))
                exp_t = [r["t100"] / UNIT[0] for r in h["rounds"]]
                if len(m._times) != len(exp_t) or any(not math.isclose(a, b, abs_tol=1e-9) for a, b in zip(m._times, exp_t)):
                    bad.append(("times of run", exp_t, m._times))
                exp_keys = [s["t100"] / UNIT[0] for s in h["stats"]]
                got_keys = sorted(m.statistics().keys())
                if len(got_keys) != len(exp_keys) or any(not math.isclose(a, b, abs_tol=1e-9) for a, b in zip(got_keys, exp_keys)):
                    bad.append(("statistics keys of run", exp_keys, got_keys))
            if "stats" in parts:
                for s in h["stats"]:
                    bad += cmp_stats(s["stats"], A.stats_at(m, s["t100"] / UNIT[0], self.types), self.types, "t=%s" % (s["t100"] / UNIT[0]))
        return bad


UNIT = A.UNIT


def replay(hist, types, dt100, default_v, parts, spawn=None, max_ids=None, unit=100):
    UNIT[0] = float(unit)
    """returns None if the whole history conforms, else dict describing the first mismatch"""
    r = Replayer(types, dt100, default_v, spawn, max_ids or 10 ** 9)
    for i, h in enumerate(hist):
        bad = r.step(h, parts)
        if bad:
            c, e, g = bad[0]
            return {"step": i, "op": {k: v for k, v in h.items() if k not in ("q", "stats", "rounds", "calls", "handled")},
                    "clause": c, "expected": e, "observed": g, "more": [b[0] for b in bad[1:6]],
                    "prefix": [{k: v for k, v in x.items() if k not in ("q", "stats", "rounds", "calls", "handled")} for x in hist[:i + 1]]}
    return None
