"""Shared plumbing: locating the repository under test, scratch directories, evidence files,
known findings, verdict bookkeeping."""
import contextlib, json, os, random, shutil, sys, tempfile, time

VERIF = os.path.dirname(os.path.dirname(os.path.abspath(__file__)))
REPO = os.environ.get("VERIF_REPO", "/repo")
GUARD = "BPTK_PY_VERIF"


def use_repo():
    """Make `import BPTK_Py` resolve to the working tree under test (not a snapshot)."""
    os.environ[GUARD] = "1"
    os.environ.setdefault("MPLBACKEND", "Agg")
    if REPO not in sys.path:
        sys.path.insert(0, REPO)
    import warnings
    warnings.filterwarnings("ignore")
    import BPTK_Py
    got = os.path.realpath(os.path.dirname(os.path.dirname(BPTK_Py.__file__)))
    if got != os.path.realpath(REPO):
        raise Machinery("BPTK_Py imported from %s, expected %s" % (got, REPO))
    import logging
    logging.disable(logging.CRITICAL)
    return BPTK_Py


class Machinery(Exception):
    """something in the verification machinery itself failed: exit 2"""


@contextlib.contextmanager
def scratch_cwd():
    old = os.getcwd()
    d = tempfile.mkdtemp(prefix="vbptk_")
    os.chdir(d)
    try:
        yield d
    finally:
        os.chdir(old)
        shutil.rmtree(d, ignore_errors=True)


def seed():
    try:
        return int(os.environ.get("VERIF_SEED", "0"))
    except ValueError:
        return 0


class Findings:
    """known_findings.json is read-only at run time."""

    def __init__(self):
        with open(os.path.join(VERIF, "known_findings.json")) as f:
            self.entries = json.load(f)

    def open_for(self, prop):
        return [e for e in self.entries if e.get("property") == prop and e.get("status") == "open"]


class Run:
    """Collects the outcome of one check run and writes evidence + verdict."""

    def __init__(self, prop, tier, level):
        self.prop, self.tier, self.level = prop, tier, level
        self.t0 = time.time()
        self.seed = seed()
        self.violations = []      # (clause, detail dict)
        self.known = {}           # finding id -> count
        self.known_what = {}
        self.cov = {"samples": []}
        self.assumptions = []
        self.findings = Findings()
        self.notes = []

    # -- bookkeeping ----------------------------------------------------------------------
    def add(self, key, n=1):
        self.cov[key] = self.cov.get(key, 0) + n

    def sample(self, x, cap=4):
        if len(self.cov["samples"]) < cap:
            self.cov["samples"].append(x)

    def violation(self, clause, detail):
        self.violations.append((clause, detail))

    def known_finding(self, fid, what, n=1):
        self.known[fid] = self.known.get(fid, 0) + n
        self.known_what.setdefault(fid, what)

    # -- end of run -----------------------------------------------------------------------
    def finish(self):
        wall = time.time() - self.t0
        os.makedirs(os.path.join(VERIF, "evidence"), exist_ok=True)
        replay = None
        if self.violations:
            os.makedirs(os.path.join(VERIF, "replays"), exist_ok=True)
            replay = os.path.join(VERIF, "replays", "%s_%s_%d.json" % (self.prop, self.tier, self.seed))
            with open(replay, "w") as f:
                json.dump({"property": self.prop, "tier": self.tier, "seed": self.seed,
                           "violations": [{"clause": c, "detail": d} for c, d in self.violations[:50]]},
                          f, indent=1, default=str)
        cov = dict(self.cov)
        cov["known_findings_reproduced"] = dict(self.known)
        cov.setdefault("traces_validated_against_impl", 0)
        ev = {"property_id": self.prop, "tier": self.tier, "seed": self.seed, "level": self.level,
              "coverage": cov, "assumptions": self.assumptions, "wall_s": round(wall, 2),
              "violations": len(self.violations), "notes": self.notes}
        with open(os.path.join(VERIF, "evidence", self.prop + ".json"), "w") as f:
            json.dump(ev, f, indent=1, default=str)
        for fid, n in sorted(self.known.items()):
            print("KNOWN-FINDING: property=%s %s %s (%d cases)" % (self.prop, fid, self.known_what[fid], n))
        if self.violations:
            for c, d in self.violations[:5]:
                print("  violated clause: %s  %s" % (c, json.dumps(d, default=str)[:600]))
            print("VIOLATION property=%s replay=%s" % (self.prop, replay))
            return 1
        print("OK property=%s tier=%s wall=%.1fs %s" % (
            self.prop, self.tier, wall,
            " ".join("%s=%s" % (k, v) for k, v in cov.items() if isinstance(v, (int, bool)))))
        return 0
