"""Pre-computes the TLC artefacts that do not depend on /repo (enumerations), so that quick checks spend
their time on the code.  Called by setup.sh; every check regenerates what is missing."""
import sys, os
sys.path.insert(0, os.path.dirname(os.path.dirname(os.path.abspath(__file__))))
from harness import expr_gen


def main():
    for fam, kw in (("pairs", {}), ("chains", {}), ("depth2", {"binops": '{"+","-","*","/","**","%",">","<="}'})):
        trees, st = expr_gen.family(fam, **kw)
        print("Expr family %s: %d trees" % (fam, len(trees)))
    try:
        from harness.props import c03
        c03.warm()
    except Exception as e:      # noqa
        print("c03 warm skipped:", e)


if __name__ == "__main__":
    main()
