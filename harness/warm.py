"""Pre-computes the TLC artefacts that do not depend on /repo (enumerations), so that quick checks spend
their time on the code.  Called by setup.sh; every check regenerates what is missing."""
import sys, os
sys.path.insert(0, os.path.dirname(os.path.dirname(os.path.abspath(__file__))))
from harness import expr_gen


def main():
    for fam, kw in (("pairs", {}), ("chains", {}), ("shared", {}), ("depth2", {"binops": '{"+","-","*","/","**","%",">","<="}'})):
        trees, st = expr_gen.family(fam, **kw)
        print("Expr family %s: %d trees" % (fam, len(trees)))
    import importlib
    for name in ("c03", "c16"):
        try:
            importlib.import_module("harness.props." + name).warm()
        except Exception as e:      # noqa
            print(name, "warm skipped:", e)
    try:
        from harness import sd_gen
        for rs in (sd_gen.QUICK_RS, sd_gen.RECIPROCAL_RS):
            t, _ = sd_gen.trajectories(sd_gen.PARAMS if rs is sd_gen.QUICK_RS else sd_gen.PARAMS[:3], rs)
            print("SdModel trajectories: %d" % len(t))
    except Exception as e:      # noqa
        print("sd_gen warm skipped:", e)


if __name__ == "__main__":
    main()
