"""C14 - agent registry stays consistent under creation, deletion and reconfiguration."""
from .. import tlc, gen, common, abm_replay

TYPES = ["a", "b", "c"]
SPAWN = {"c": ["a"]}          # creating a "c" (a firm) creates an "a" (an employee) from inside initialize()
OPS = '{"Create","Delete","Configure","Reset","SetState"}'


def consts(maxids):
    return dict(Types='{"a","b","c"}', Vals='{2}', Spawn='[t \\in {"a","b","c"} |-> IF t = "c" THEN <<"a">> ELSE <<>>]',
                Configs='{<< <<"a",1,2>>, <<"c",1,2>> >>, << <<"b",2,2>> >>}',
                MaxIds=str(maxids), MaxEvents='0', MaxSteps='0', Delays='{0}', Dt100='100', RunSpecs='{}', MaxPlans='0', PlanAhead='1', Ops=OPS)


INVS = ["UniqueIds", "IdsBelowNext", "TypeMapExact", "CountsAgree", "FoldOK"]


def run(tier, replay_file=None):
    R = common.Run("C14", tier, "model_checking")
    quick = tier == "quick"
    # 1. design level: exhaustive TLC run of the registry fragment, all invariants + the action property
    mc = tlc.run("Abm", dict(consts(5 if quick else 7), L='99'), invariants=INVS, properties=["NeverReused"],
                 view="View", spec="Spec")
    if mc.violation:
        R.violation("spec:" + mc.violation, {"trace": mc.trace[:3000]})
    R.cov["states"], R.cov["transitions"] = mc.distinct, mc.generated
    if not quick:
        cv = tlc.run("Abm", dict(consts(4), L='99'), invariants=INVS, view="View", spec="Spec", coverage=True)
        R.cov["tlc_actions"] = {k: v[1] for k, v in cv.coverage.items() if v[1] > 0 and k not in ("Init",)}
        for must in ("Create", "DoDelete", "Configure", "Reset", "DoSetState"):
            if cv.coverage.get(must, (0, 0))[1] == 0:
                raise common.Machinery("action %s never taken in the exhaustive run (vacuous)" % must)
    # 2. spec -> code: all histories of length L (BFS) + long random ones (simulate), replayed with every
    #    query compared after every operation
    Lb = 4 if quick else 5
    hs, st = gen.histories("Abm", consts(4 if quick else 5), Lb)
    hs2, st2 = gen.histories("Abm", consts(14), 30 if quick else 60, simulate=60 if quick else 1500,
                             seed=common.seed() + 1, cache=False)
    R.cov["bfs_histories"], R.cov["sim_histories"] = len(hs), len(hs2)
    R.cov["exhaustive"] = True
    n_ops = {}
    for hist in hs + hs2:
        bad = abm_replay.replay(hist, TYPES, 100, 2, {"q"}, SPAWN)
        R.add("traces_validated_against_impl")
        for h in hist:
            n_ops[h["op"]] = n_ops.get(h["op"], 0) + 1
        if bad:
            R.violation(bad["clause"], bad)
            if len(R.violations) >= 20:
                break
    R.cov["ops_replayed"] = n_ops
    R.sample([{k: v for k, v in h.items() if k != "q"} for h in (hs2[0] if hs2 else hs[0])][:12])
    R.sample(hs[len(hs) // 2][-1])
    # 3. negative control: a corrupted expectation must be rejected by the comparison
    import copy
    ctl = copy.deepcopy(hs[0])
    ctl[-1]["q"]["nid"] += 1
    if abm_replay.replay(ctl, TYPES, 100, 2, {"q"}, SPAWN) is None:
        raise common.Machinery("negative control not rejected")
    R.assumptions += ["reference agents are subclasses of BPTK_Py.Agent registered through agent factories",
                      "bounds: ids <= %d exhaustively (length %d), <= 14 ids in random histories" % (4 if quick else 5, Lb)]
    return R.finish()
