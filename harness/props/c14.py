"""C14 - agent registry stays consistent under creation, deletion and reconfiguration."""
import json
from .. import tlc, gen, common, abm_replay

TYPES = ["a", "b", "c"]
SPAWN = {"c": ["a"]}          # creating a "c" (a firm) creates an "a" (an employee) from inside initialize()
OPS = '{"Create","CreateFail","Delete","Configure","Reset","SetState"}'


def consts(maxids):
    return dict(Types='{"a","b","c"}', Vals='{2}', Spawn='[t \\in {"a","b","c"} |-> IF t = "c" THEN <<"a">> ELSE <<>>]',
                Configs='{<< <<"a",1,2>>, <<"c",1,2>> >>, << <<"b",2,2>> >>, << <<"b",1,2>>, <<"a",1,2>>, <<"b",1,2>> >>}',     # (the last one lists a type in two entries)
                MaxIds=str(maxids), MaxEvents='0', MaxSteps='0', Delays='{0}', Dt100='100', RunSpecs='{}', MaxPlans='0', PlanAhead='1', Ops=OPS)


INVS = ["UniqueIds", "IdsBelowNext", "TypeMapExact", "CountsAgree", "FoldOK"]


def random_trace(rng, length):
    """drive a real Model with random registry operations; returns the event list (op, args, observed queries) or an
    immediate failure when a query raised"""
    from .. import abm_adapter as A
    m = A.build(TYPES, 100, spawn=SPAWN, default_v=2)
    events = []
    for _ in range(length):
        alive = [a.id for a in m.agents]
        ops = ["Create", "Create", "Create", "Configure"]
        if alive:
            ops += ["Delete", "Delete", "SetState", "SetState", "Reset"]
        op = rng.choice(ops)
        if op == "Create":
            ty = rng.choice(TYPES)
            m.create_agent(ty, A.prop_v(2))
            ev = {"op": "Create", "ty": ty, "v": 2}
        elif op == "Delete":
            pool = list(range(m.next_agent_id))
            ids = set(rng.sample(pool, min(len(pool), rng.choice([1, 1, 2]))))
            (m.delete_agent(next(iter(ids))) if len(ids) == 1 else m.delete_agents(list(ids)))
            ev = {"op": "Delete", "ids": ids}
        elif op == "Configure":
            cfg = rng.choice([[["a", 1, 2], ["c", 1, 2]], [["b", 2, 2]]])
            m.configure_agents([{"name": c[0], "count": c[1], "properties": A.prop_v(c[2])} for c in cfg])
            ev = {"op": "Configure", "cfg": [tuple(c) for c in cfg]}
        elif op == "Reset":
            m.reset()
            ev = {"op": "Reset"}
        else:
            i = rng.choice(alive)
            st = "idle" if m.agent(i).state == "active" else "active"
            m.agent(i).state = st
            ev = {"op": "SetState", "id": i, "st": st}
        q = A.queries(m, TYPES)
        flat = json.dumps(q)
        if "EXC:" in flat or "WRONG-ID" in flat:
            return events, {"event": {k: (sorted(v) if isinstance(v, set) else v) for k, v in ev.items()}, "queries": q}
        ev["q"] = q
        events.append(ev)
    return events, None


def run(tier, replay_file=None):
    R = common.Run("C14", tier, "model_checking")
    quick = tier == "quick"
    # 1. design level: exhaustive TLC run of the registry fragment, all invariants + the action property
    mc = tlc.run("Abm", dict(consts(5 if quick else 7), L='0'), invariants=INVS, properties=["NeverReused"],
                 view="View", spec="Spec")
    if mc.violation:
        R.violation("spec:" + mc.violation, {"trace": mc.trace[:3000]})
    R.cov["states"], R.cov["transitions"] = mc.distinct, mc.generated
    # 2. spec -> code: all histories of length L (BFS) + long random ones (simulate), replayed with every
    #    query compared after every operation
    Lb = 4 if quick else 5
    hs, st = gen.histories("Abm", consts(4), Lb)
    if not quick:       # (5 ids x length 5 exhausts TLC's heap: 5 ids are enumerated to length 4)
        hs5, _ = gen.histories("Abm", consts(5), 4)
        hs = hs + hs5
    hs2, st2 = gen.histories("Abm", consts(14), 30 if quick else 40, simulate=60 if quick else 500,
                             seed=common.seed() + 1, cache=False)
    R.cov["bfs_histories"], R.cov["sim_histories"] = len(hs), len(hs2)
    R.cov["exhaustive"] = True
    n_ops = {}
    import os
    for hist in ([] if os.environ.get("VERIF_ONLY_TRACE") else hs + hs2):
        bad = abm_replay.replay(hist, TYPES, 100, 2, {"q"}, SPAWN)
        R.add("traces_validated_against_impl")
        for h in hist:
            n_ops[h["op"]] = n_ops.get(h["op"], 0) + 1
        if bad:
            R.violation(bad["clause"], bad)
            if len(R.violations) >= 20:
                break
    R.cov["ops_replayed"] = n_ops
    for must in ("Create", "Delete", "Configure", "Reset", "SetState"):       # vacuity (TLC's -coverage exhausts the heap on Abm.tla)
        if not R.violations and not os.environ.get("VERIF_ONLY_TRACE") and n_ops.get(must, 0) == 0:
            raise common.Machinery("operation %s never occurs in the generated behaviours (vacuous)" % must)
    R.sample([{k: v for k, v in h.items() if k != "q"} for h in (hs2[0] if hs2 else hs[0])][:12])
    R.sample(hs[len(hs) // 2][-1])
    # 2b. code -> spec: random operation sequences on the real Model, validated by TLC against AbmTrace.tla
    import random
    rng = random.Random(common.seed() + 99)
    traces = []
    for _ in range(12 if quick else 120):
        ev, failed = random_trace(rng, 40 if quick else 60)
        if failed:
            R.violation("a registry query failed or answered about another agent", failed)
        traces.append(ev)
    if traces and not R.violations:
        import re
        for lo in range(0, len(traces), 12):          # TLC holds the traces as one constant: validate them in batches
            batch = traces[lo:lo + 12]
            c = dict(consts(100000), L='0')
            c["Traces"] = tlc.tla(batch)
            tv = tlc.run("AbmTrace", c, init="TraceInit", next="TraceNext", invariants=INVS, deadlock=True, workers=1, timeout=1800)
            R.add("traces_validated_against_impl", len(batch))
            R.add("tlc_trace_validations", len(batch))
            R.add("trace_events", sum(len(t) for t in batch))
            if tv.violation:
                tids, ls = re.findall(r"/\\ tid = (\d+)", tv.trace), re.findall(r"/\\ l = (\d+)", tv.trace)
                t, li = (int(tids[-1]) if tids else 1), (int(ls[-1]) if ls else 1)
                evs = batch[t - 1]
                R.violation("recorded registry trace is not a behaviour of Abm (%s)" % tv.violation,
                            {"unexplained_event_index": li,
                             "unexplained_event": ({k: (sorted(v) if isinstance(v, set) else v) for k, v in evs[li - 1].items()} if li <= len(evs) else None),
                             "preceding_ops": [{k: (sorted(v) if isinstance(v, set) else v) for k, v in e.items() if k != "q"} for e in evs[max(0, li - 6):li]]})
                break
        # negative control for the trace specification: one corrupted observation must be rejected
        import copy as _copy
        evil = _copy.deepcopy(traces[0][:10])
        evil[-1]["q"]["cnt"]["a"] += 1
        c2 = dict(consts(100000), L='0'); c2["Traces"] = tlc.tla([evil])
        tv2 = tlc.run("AbmTrace", c2, init="TraceInit", next="TraceNext", invariants=INVS, deadlock=True, workers=1, timeout=600)
        if not tv2.violation:
            raise common.Machinery("negative control: corrupted registry trace accepted by AbmTrace")
    # 3. negative control: a corrupted expectation must be rejected by the comparison
    import copy
    ctl = copy.deepcopy(hs[0])
    ctl[-1]["q"]["nid"] += 1
    if abm_replay.replay(ctl, TYPES, 100, 2, {"q"}, SPAWN) is None:
        raise common.Machinery("negative control not rejected")
    R.assumptions += ["reference agents are subclasses of BPTK_Py.Agent registered through agent factories",
                      "bounds: ids <= 4 exhaustively to length %d%s, <= 14 ids in random histories" % (Lb, "" if quick else " and ids <= 5 to length 4")]
    return R.finish()
