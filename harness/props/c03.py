"""C03 - XMILE transpiler preserves the meaning of every supported equation."""
import math, os, random, re, tempfile, shutil
from fractions import Fraction
from .. import common, expr_gen, xmile_gen as X

FN1 = '{"abs","sqrt","exp","int"}'
FN2 = '{"min","max","safediv"}'
NAMINGS = {
    "plain": ({"a": "a", "b": "b", "c": "c"}, {"a": "a", "b": "b", "c": "c"}),
    "spaces": ({"a": "alpha one", "b": "b two", "c": "c"}, {"a": "alpha_one", "b": "b_two", "c": "c"}),        # declared with spaces, referenced with underscores
    "case": ({"a": "Alpha_One", "b": "Beta", "c": "gamma"}, {"a": "ALPHA_ONE", "b": "beta", "c": "Gamma"}),     # letter case differs between declaration and use
}


def families():
    pairs, s1 = expr_gen.family("pairs", binops=expr_gen.XMILE_OPS, fn1=FN1, fn2=FN2, mod_nonneg=True)
    chains, s2 = expr_gen.family("chains", binops=expr_gen.XMILE_OPS, fn1=FN1, fn2=FN2, mod_nonneg=True)
    return pairs, chains, s1, s2


def warm():
    p, c, _, _ = families()
    print("Expr XMILE families: %d + %d trees" % (len(p), len(c)))


def rename(text, ref):
    return re.sub(r"\b([abc])\b", lambda m: ref[m.group(1)], text)


def run_batch(R, items, env_i, naming, workdir, stats):
    """items: list of (tree, style); one document, one compilation"""
    decl, ref = NAMINGS[naming]
    env = expr_gen.ENVS[env_i]
    def num(q):
        f = Fraction(*q)
        return str(f.numerator) if f.denominator == 1 else repr(float(f))
    head = [X.aux(decl[n], num(env[n])) for n in "abc"]
    eqs = [(t, style, rename(t[style], ref)) for t, style in items]

    def compile_and_eval(sub):
        doc = X.document("c03", head + [X.aux("x%d" % k, e[2]) for k, e in enumerate(sub)])
        sim, _ = X.compile_doc(doc, workdir)
        out = []
        for k, e in enumerate(sub):
            try:
                v = sim.equation("x%d" % k, 1.0)
                out.append(("val", float(v)) if not isinstance(v, complex) and v is not None else ("loud", "value %r" % (v,)))
            except Exception as ex:
                out.append(("loud", "%s: %s" % (type(ex).__name__, str(ex)[:80])))
        return out

    def solve(sub):
        """compile a list of equations; a document that does not compile is split until the loud equations are isolated"""
        try:
            return compile_and_eval(sub)
        except Exception as ex:
            stats["doc_failures"] = stats.get("doc_failures", 0) + 1
            if len(sub) == 1:
                return [("loud", "compile: %s: %s" % (type(ex).__name__, str(ex)[:80]))]
            mid = len(sub) // 2
            return solve(sub[:mid]) + solve(sub[mid:])

    # equations the implementation's own PEG grammar rejects are loud already; keep them out of the bulk documents
    import importlib
    G = importlib.import_module("BPTK_Py.sdcompiler.parsers.smile.grammar").grammar
    parsed, res_map = [], {}
    for k, e in enumerate(eqs):
        try:
            G.parse(e[2])
            parsed.append(k)
        except Exception as ex:
            res_map[k] = ("loud", "parse: %s" % type(ex).__name__)
    for k, r in zip(parsed, solve([eqs[k] for k in parsed])):
        res_map[k] = r
    res = [res_map[k] for k in range(len(eqs))]
    for (t, style, text), (kind, v) in zip(eqs, res):
        ref_v = t["val"][env_i]
        if ref_v[1] == 0:
            stats["undef"] = stats.get("undef", 0) + 1
            continue
        if kind == "loud":
            stats["loud"] = stats.get("loud", 0) + 1
            if t["core"]:
                R.violation("supported equation (arithmetic core) is rejected", {"equation": text, "style": style, "naming": naming, "error": v})
            continue
        exp = ref_v[0] / ref_v[1]
        stats["compared"] = stats.get("compared", 0) + 1
        if not math.isclose(v, exp, rel_tol=1e-9, abs_tol=1e-9):
            R.violation("transpiled value differs from the XMILE meaning of the equation",
                        {"equation": text, "style": style, "naming": naming, "environment": env, "expected": exp, "observed": v,
                         "python_reading": t["py"]})
        if len(R.violations) >= 25:
            return


def run_modules(R, trees, workdir, stats):
    """the same equation texts in the root model and in two modules, each over its OWN a, b, c (different values):
    a reference resolves to the variable of the model the equation belongs to"""
    envs = {"": 0, "Plant A": 1, "Plant B": 2}
    def num(q):
        f = Fraction(*q)
        return str(f.numerator) if f.denominator == 1 else repr(float(f))
    def block(env_i):
        env = expr_gen.ENVS[env_i]
        return [X.aux(n, num(env[n])) for n in "abc"] + [X.aux("x%d" % k, t["xmin"]) for k, t in enumerate(trees)]
    doc = X.document("c03m", block(0), modules={"Plant A": block(1), "Plant B": block(2)})
    try:
        sim, _ = X.compile_doc(doc, workdir)
    except Exception as ex:
        R.violation("a document with modules built from supported arithmetic equations does not compile", {"error": "%s: %s" % (type(ex).__name__, str(ex)[:200])})
        return
    for mname, env_i in envs.items():
        prefix = "" if mname == "" else mname[0].lower() + mname[1:].replace(" ", "") + "."
        for k, t in enumerate(trees):
            ref_v = t["val"][env_i]
            if ref_v[1] == 0:
                continue
            try:
                v = float(sim.equation(prefix + "x%d" % k, 1.0))
            except Exception as ex:
                R.violation("equation of a module cannot be evaluated", {"module": mname, "equation": t["xmin"], "error": "%s: %s" % (type(ex).__name__, str(ex)[:120])})
                return
            stats["module_compared"] = stats.get("module_compared", 0) + 1
            exp = ref_v[0] / ref_v[1]
            if not math.isclose(v, exp, rel_tol=1e-9, abs_tol=1e-9):
                R.violation("an equation inside a module is evaluated over another model's variables",
                            {"module": mname or "(root)", "equation": t["xmin"], "own_values": expr_gen.ENVS[env_i], "expected": exp, "observed": v})
                return


def run(tier, replay_file=None):
    R = common.Run("C03", tier, "translation_validation")
    quick = tier == "quick"
    rng = random.Random(common.seed())
    common.use_repo()
    pairs, chains, s1, s2 = families()
    R.cov["states"], R.cov["transitions"] = s1["distinct"] + s2["distinct"], s1["generated"] + s2["generated"]
    trees = pairs + chains
    R.cov["trees_enumerated"] = len(trees)
    if quick:
        core = [t for t in trees if t["core"]]
        mixed = [t for t in trees if " AND " in t["xmin"] and " OR " in t["xmin"]]      # AND and OR in one condition: a fixed share is replayed
        ints = [t for t in trees if "INT(" in t["xmin"] and t not in mixed]                # INT of anything (negative arguments are rare): all replayed
        rest = [t for t in trees if not t["core"] and t not in mixed and t not in ints]
        trees = rng.sample(core, min(500, len(core))) + rng.sample(rest, min(500, len(rest))) + rng.sample(mixed, min(150, len(mixed))) + ints + chains
    workdir = tempfile.mkdtemp(prefix="vx_")
    stats = {}
    try:
        docs = 0
        for env_i in range(len(expr_gen.ENVS)):
            for naming in NAMINGS:
                styles = ["xmin", "xred", "xtight"]
                if quick:       # rotate so that every style and naming meets every environment
                    styles = [styles[(env_i + list(NAMINGS).index(naming)) % 3]]
                items = [(t, s) for t in trees for s in styles]
                for k in range(0, len(items), 400):
                    run_batch(R, items[k:k + 400], env_i, naming, workdir, stats)
                    docs += 1
                    if len(R.violations) >= 25:
                        break
                if len(R.violations) >= 25:
                    break
            if len(R.violations) >= 25:
                break
        # references inside modules (same equation text in several models of one document)
        core_trees = [t for t in trees if t["core"]]
        run_modules(R, rng.sample(core_trees, min(len(core_trees), 80 if quick else 400)), workdir, stats)
        docs += 1
        # equations outside the supported grammar must fail loudly, never produce a value
        unsupported = ["FOO(a)", "a +* b", "a ) + ( b", "UNKNOWNFN(a, b) + 1", "a b", "MAX(a", "IF a > b THEN", "a ? b : c"]
        for text in unsupported:
            doc = X.document("c03u", [X.aux("a", "7"), X.aux("b", "3"), X.aux("c", "2"), X.aux("x0", text)])
            try:
                sim, _ = X.compile_doc(doc, workdir)
                v = sim.equation("x0", 1.0)
                R.violation("equation outside the supported grammar produced a value", {"equation": text, "value": v})
            except Exception:
                stats["unsupported_loud"] = stats.get("unsupported_loud", 0) + 1
        R.cov["programs"] = docs + len(unsupported)
    finally:
        shutil.rmtree(workdir, ignore_errors=True)
    R.cov.update({"equations_compared": stats.get("compared", 0), "loud_equations": stats.get("loud", 0),
                  "skipped_undefined_reference": stats.get("undef", 0), "documents_split": stats.get("doc_failures", 0),
                  "unsupported_rejected": stats.get("unsupported_loud", 0), "module_equations_compared": stats.get("module_compared", 0)})
    R.cov["disagreements_checked"] = stats.get("compared", 0)
    R.cov["traces_validated_against_impl"] = stats.get("compared", 0)
    if not R.violations and stats.get("compared", 0) < 3000:
        raise common.Machinery("too few equations compared (%d): vacuous" % stats.get("compared", 0))
    R.sample({"xmin": trees[3]["xmin"], "xred": trees[3]["xred"], "xtight": trees[3]["xtight"], "val": trees[3]["val"]})
    R.assumptions += ["reference = Expr.tla Eval with the XMILE precedence table (^ right-associative and above unary minus, * / MOD, + -, relational, = <>, AND, OR)",
                      "MOD only with non-negative operands; INT away from integers; SQRT of squares; EXP(0); comparison ties excluded",
                      "equations with IF / comparisons / AND / OR / NOT / built-ins may be rejected loudly (the PEG grammar accepts only some forms); pure arithmetic must be accepted"]
    return R.finish()
