"""C19 - externalised instance state is restored losslessly."""
import copy
from .. import tlc, gen, common, srv_replay

OPS = '{"Start","Begin","Step","Steps","Results","Metrics","Tick","End","SaveState","LoadState","Crash"}'
DEV = '{"D16b_no_replay", "D15_compress_lossy"}'      # generate with the faithful model so that both predictions are in the history


def consts(insts, stop, dev, compress=False, ops=OPS, timeouts='{2,3}', ticks='{1,2}', maxnow=100000, kv='{0,2}', sv='{0,3,4}'):
    return dict(Inst=insts, Timeouts=timeouts, Ticks=ticks, KVals=kv, StepVals=sv, Stop=str(stop), MaxNow=str(maxnow),
                Scen='{"base","high"}', Ops=ops, Adapter="TRUE", Compress="TRUE" if compress else "FALSE", Kinds='{}', Creds='{}', Dev=dev)


GRIDS = [(1.0, 1.0), (0.0, 0.125), (2.0, 0.5), (0.1, 0.05)]      # (start, dt) of the reference model; the specification counts steps


NUMERIC_NAMES = {"base": "1", "high": "2030"}     # scenario names that look like numbers (years, ordinals)


def replay_set(R, hs, compress, known_total, probe=True, grid=(1.0, 1.0)):
    for n_h, hist in enumerate(hs):
        known = []
        names = NUMERIC_NAMES if n_h % 3 == 2 else None
        bad = srv_replay.replay(hist, stop=4, adapter=True, compress=compress, base_constants=True, probe=probe, known=known, two=True, grid=grid, names=names)
        R.add("traces_validated_against_impl")
        for k in known:
            known_total[k[0]] = known_total.get(k[0], 0) + 1
        if bad:
            bad["compress"] = compress
            bad["model_grid"] = {"start": grid[0], "dt": grid[1]}
            bad["scenario_names"] = names or "base / high"
            R.violation(bad["clause"], bad)
            if len(R.violations) >= 20:
                return False
    return True


def run(tier, replay_file=None):
    R = common.Run("C19", tier, "model_checking")
    quick = tier == "quick"
    # design: with Dev = {} every step / results response equals the uninterrupted session's
    mc = tlc.run("Server", dict(consts('{"i1"}', 2, '{}', False, timeouts='{2}', ticks='{2}', maxnow=4 if quick else 6, sv='{0,3}'), L='0'),
                 invariants=["Continuity", "RoundTrip", "AliveOK", "GoneOK"], view="View", spec="Spec", timeout=3000)
    if mc.violation:
        R.violation("spec:" + mc.violation, {"trace": mc.trace[:3000]})
    R.cov["states"], R.cov["transitions"] = mc.distinct, mc.generated
    # the listed deviation must make the spec violate Continuity (otherwise the finding is vacuous)
    dv = tlc.run("Server", dict(consts('{"i1"}', 2, '{"D16b_no_replay"}', False, timeouts='{2}', ticks='{2}', maxnow=4, sv='{0,3}'), L='0'),
                 invariants=["Continuity"], view="View", spec="Spec", timeout=3000)
    if dv.violation != "Continuity":
        raise common.Machinery("Dev={D16b_no_replay} does not violate Continuity in the spec: finding mis-modelled")
    known_total = {}
    n = 0
    for compress in (False, True):
        for insts in ('{"i1"}', '{"i1","i2"}'):
            n += 1
            hs, _ = gen.histories("Server", consts(insts, 4, DEV, compress), 16 if quick else 26, simulate=18 if quick else 200,
                                  seed=common.seed() * 10 + n, cache=False)
            if not replay_set(R, hs, compress, known_total):
                break
            # the same histories on time grids that are not whole numbers (labels with three decimals, decimal dt)
            # (uncompressed format only: the compressed format renumbers its steps 1.0, 2.0, ..., which is KF-C19-1)
            for g in ([] if compress else GRIDS[1:] if (not quick or n == 1) else [GRIDS[1]]):
                if not replay_set(R, hs, compress, known_total, grid=g):
                    break
    # every restore path followed by a read, enumerated: Start, Begin, two stepping requests, then SaveState+LoadState / Crash /
    # a sweep (Tick), then session-results or a further step - for both formats of the state file
    SHAPE = ('MC_Restore == LET n == Len(hist\') h == hist\'[n] IN\n'
             '   /\\ (n = 1 => h.op = "Start") /\\ (n = 2 => h.op = "Begin" /\\ h.status = 200)\n'
             '   /\\ (n \\in {3, 4} => h.op \\in {"Step", "Steps"} /\\ h.status = 200)\n'
             '   /\\ (n = 5 => h.op \\in {"Crash", "LoadState", "Tick"})\n'
             '   /\\ (n = 6 => h.op \\in {"Results", "Step"})\n')
    import random as _r
    for compress in (False, True):
        c = consts('{"i1"}', 4, DEV, compress, ops='{"Start","Begin","Step","Steps","Results","Tick","LoadState","Crash"}', timeouts='{2}', ticks='{3}', kv='{0,2}', sv='{0,3}')
        c["Scen"] = '{"base"}'
        hr, _ = gen.histories("Server", c, 6, defs=SHAPE, extra_cfg={"action_constraints": ["MC_Restore"]})
        R.cov["restore_then_read_histories_%s" % ("compressed" if compress else "plain")] = len(hr)
        if quick:
            hr = _r.Random(common.seed() + int(compress)).sample(hr, min(len(hr), 120))
        if not replay_set(R, hr, compress, known_total):
            break
    # a session begun, then another one begun with another selection before any step (the clock is at the start both times), then
    # every restore path, then steps / session-results: every history, both formats
    SHAPE2 = ('MC_Rebegin == LET n == Len(hist\') h == hist\'[n] IN\n'
              '   /\\ (n = 1 => h.op = "Start") /\\ (n \\in {2, 3} => h.op = "Begin" /\\ h.status = 200)\n'
              '   /\\ (n = 3 => h.sc # hist\'[2].sc \\/ h.kv # hist\'[2].kv)\n'
              '   /\\ (n = 4 => h.op \\in {"Crash", "LoadState", "Tick"}) /\\ (n \\in {5, 6} => h.op \\in {"Results", "Step"})\n')
    for compress in (False, True):
        c = consts('{"i1"}', 4, DEV, compress, ops='{"Start","Begin","Step","Results","Tick","LoadState","Crash"}', timeouts='{2}', ticks='{3}', kv='{0,2}', sv='{0,3}')
        hb, _ = gen.histories("Server", c, 6, defs=SHAPE2, extra_cfg={"action_constraints": ["MC_Rebegin"]})
        R.cov["begin_twice_then_restore_histories_%s" % ("compressed" if compress else "plain")] = len(hb)
        if quick:
            hb = _r.Random(common.seed() + 2 + int(compress)).sample(hb, min(len(hb), 100))
        if not replay_set(R, hb, compress, known_total):
            break
    # a session ended (the instance is externalised without a session), then every restore path, then every kind of request
    SHAPE3 = ('MC_Ended == LET n == Len(hist\') h == hist\'[n] IN\n'
              '   /\\ (n = 1 => h.op = "Start") /\\ (n = 2 => h.op = "Begin" /\\ h.status = 200) /\\ (n = 3 => h.op = "Step") /\\ (n = 4 => h.op = "End")\n'
              '   /\\ (n = 5 => h.op \\in {"Crash", "LoadState", "Tick"}) /\\ (n \\in {6, 7} => h.op \\in {"Results", "Step", "Begin", "End"})\n')
    for compress in (False, True):
        c = consts('{"i1"}', 4, DEV, compress, ops='{"Start","Begin","Step","End","Results","Tick","LoadState","Crash"}', timeouts='{2}', ticks='{3}', kv='{0,2}', sv='{0,3}')
        c["Scen"] = '{"base"}'
        he, _ = gen.histories("Server", c, 7, defs=SHAPE3, extra_cfg={"action_constraints": ["MC_Ended"]})
        R.cov["ended_session_then_restore_histories_%s" % ("compressed" if compress else "plain")] = len(he)
        if quick:
            he = _r.Random(common.seed() + 4 + int(compress)).sample(he, min(len(he), 100))
        if not replay_set(R, he, compress, known_total):
            break
    # a store that holds an instance WITHOUT a session next to one with an open session (both written by /save-state), then a
    # whole-server restore (restart or /load-state), then the open session is read or stepped - both role assignments, so that
    # whichever order the store lists the two files in, the session-less one comes first in one of them: every history
    SHAPE4 = ('MC_Mixed == LET n == Len(hist\') h == hist\'[n] IN\n'
              '   /\\ (n \\in {1, 2} => h.op = "Start") /\\ (n = 3 => h.op = "Begin" /\\ h.status = 200) /\\ (n = 4 => h.op = "Step" /\\ h.i = hist\'[3].i)\n'
              '   /\\ (n = 5 => h.op = "SaveState") /\\ (n = 6 => h.op \\in {"Crash", "LoadState"})\n'
              '   /\\ (n \\in {7, 8} => h.op \\in {"Results", "Step"} /\\ h.i = hist\'[3].i)\n')
    for compress in (False, True):
        c = consts('{"i1","i2"}', 4, DEV, compress, ops='{"Start","Begin","Step","Results","SaveState","LoadState","Crash"}', timeouts='{3}', ticks='{}', kv='{0,2}', sv='{0,3}')
        c["Scen"] = '{"base"}'
        hx, _ = gen.histories("Server", c, 8, defs=SHAPE4, extra_cfg={"action_constraints": ["MC_Mixed"]})
        hx = [h for h in hx if len({x["i"] for x in h[:2]}) == 2]
        R.cov["mixed_store_then_restore_histories_%s" % ("compressed" if compress else "plain")] = len(hx)
        if quick:
            a = [h for h in hx if h[2]["i"] == "i1"]; b = [h for h in hx if h[2]["i"] == "i2"]
            hx = _r.Random(common.seed() + 6).sample(a, min(len(a), 50)) + _r.Random(common.seed() + 7).sample(b, min(len(b), 50))
        else:
            hx = _r.Random(common.seed() + 6).sample(hx, min(len(hx), 1600))      # (thorough: a bounded sample of the enumerated family)
        if not hx:
            raise common.Machinery("mixed-store family is empty (vacuous)")
        if not replay_set(R, hx, compress, known_total):
            break
    R.cov["known_matches"] = known_total
    R.sample([{a: b for a, b in h.items() if a not in ("rows", "want", "row")} for h in hs[0]])
    f = R.findings.open_for("C19") + [e for e in R.findings.entries if e.get("status") == "open" and "C19" in e.get("also", [])]
    for e in f:
        if known_total.get(e["dev"]):
            R.known_finding(e["id"], e["what"][:160], known_total[e["dev"]])
    # negative control
    ctl = None
    for hist in hs:
        for i, h in enumerate(hist):
            if h["op"] == "Results" and h.get("want"):
                ctl = copy.deepcopy(hist); ctl[i]["want"] = ctl[i]["want"][:-1]; ctl[i]["rows"] = ctl[i]["rows"][:-1]
                break
        if ctl:
            break
    if ctl is not None and srv_replay.replay(ctl, stop=4, adapter=True, base_constants=True, known=[]) is None:
        raise common.Machinery("negative control not rejected")
    R.assumptions += ["reference model on the grids (start, dt) = (1, 1), (0, 0.125), (2, 0.5), (0.1, 0.05); FileAdapter on a scratch directory; both compression modes",
                      "restore paths: lazy restore after a sweep, /save-state + /load-state, new server object on the same directory"]
    return R.finish()
