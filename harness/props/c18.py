"""C18 - step-advancing requests on one instance never interleave."""
import itertools, json, random, threading
from .. import tlc, common, sched, srv_adapter as S

INV = ["Exclusive", "Serial", "Consecutive", "NoDup", "ClockExact", "Released", "RefusedNothing", "StoreCurrent"]
STOP, NSTEPS = 3, 2


ERR_BODIES = {     # kind "err/<variant>": (endpoint, raw body) the handler rejects
    "step-badjson": ("run-step", '{"settings": '), "step-nosettings": ("run-step", '{}'),
    "steps-badjson": ("run-steps", '{"numberSteps": 2, '), "steps-nonumber": ("run-steps", '{"settings": {}}'), "steps-nosettings": ("run-steps", '{"numberSteps": 2}'),
    "stream-badjson": ("stream-steps", '{"settings"'), "stream-nosettings": ("stream-steps", '{}'),
}


def cons(kinds, dev='{}', abort=None, store=False):
    rs = "abc"[:len(kinds)]
    K = " @@ ".join('"%s" :> "%s"' % (r, k.split("/")[0].split("!")[0]) for r, k in zip(rs, kinds))
    A = " @@ ".join('"%s" :> %d' % (r, (abort or {}).get(r, 0)) for r in rs)
    return dict(Reqs="{" + ",".join('"%s"' % r for r in rs) + "}", Kind="(" + K + ")", Abort="(" + A + ")",
                N=str(NSTEPS), Stop=str(STOP), Dev=dev, Store="TRUE" if store else "FALSE")


def times_of(body):
    """simulation times contained in a stepping response body"""
    out = []
    try:
        data = json.loads(body)
    except Exception:
        return None
    items = data if isinstance(data, list) else [data]
    for it in items:
        if isinstance(it, dict) and "sm" in it:
            out += [float(t) for t in it["sm"]["base"]["s"].keys()]
    return out


def execute(kinds, abort, schedule, fine=False, store=False):
    """run the requests of the given kinds on a fresh session under the forced schedule;
    returns (events, outcome dict).  store: the server has an external state adapter, and the copy of the session state and
    its write are scheduling points of their own (S, P)"""
    need_adapter = store or any(k == "save" or k.endswith("!fault") for k in kinds)
    srv = S.Srv(stop=STOP, adapter=need_adapter, base_constants=True)
    try:
        srv.start("i1", 500)
        srv.begin("i1", "base", 0)
        uid = srv.uid("i1")
        inst = srv.app._instance_manager._instances[uid]["instance"]

        def probe():
            st = inst.session_state
            return bool(st["lock"]), int(round(float(st["step"])))
        ctl = sched.Controller(probe, extra_anchors=sched.SAVE_ANCHORS if store else None)
        inst.session_state = sched.TracedState(inst.session_state, ctl)

        fault = threading.local()
        if need_adapter:
            ad = srv.app._external_state_adapter
            real_save = ad.save_instance
            def save_instance(state, *a, **k):
                if getattr(fault, "armed", False):
                    fault.armed = False
                    raise OSError(28, "No space left on device")       # the storage fails for exactly this request's save
                return real_save(state, *a, **k)
            ad.save_instance = save_instance

        def mk(rid, kind):
            def fn():
                cl = srv.app.test_client()
                hdr = dict(content_type="application/json")
                if kind == "save":
                    r = cl.get("/save-state")
                    return r.status_code, r.get_data(as_text=True)
                if kind.endswith("!fault"):
                    fault.armed = True
                    try:
                        r = cl.post("/%s/run-steps" % uid, data=json.dumps({"settings": {}, "numberSteps": NSTEPS}), **hdr)
                        return r.status_code, r.get_data(as_text=True)
                    except OSError as e:
                        return 500, "storage fault: %s" % e
                    finally:
                        fault.armed = False
                if kind.startswith("err/"):
                    endpoint, body = ERR_BODIES[kind[4:]]
                    r = cl.post("/%s/%s" % (uid, endpoint), data=body, **hdr)
                    return r.status_code, r.get_data(as_text=True)
                if kind == "step":
                    r = cl.post("/%s/run-step" % uid, data=json.dumps({"settings": {}}), **hdr)
                    return r.status_code, r.get_data(as_text=True)
                if kind == "steps":
                    r = cl.post("/%s/run-steps" % uid, data=json.dumps({"settings": {}, "numberSteps": NSTEPS}), **hdr)
                    return r.status_code, r.get_data(as_text=True)
                r = cl.post("/%s/stream-steps" % uid, data=json.dumps({"settings": {}}), buffered=False, **hdr)
                chunks, results = [], 0
                it = iter(r.response)
                gone = False
                try:
                    for ch in it:
                        ch = ch.decode() if isinstance(ch, bytes) else ch
                        chunks.append(ch)
                        if ch.startswith("{"):
                            results += 1
                            if abort.get(rid, 0) and results >= abort[rid]:
                                gone = True
                                break               # the client goes away
                finally:
                    if r.status_code == 200 and not gone:
                        # the stream ran to its end; the server closes the response some time later: a step of its own ("D")
                        sched._tls.worker._park("D")
                    r.close()
                body = "".join(chunks)
                if not body.rstrip().endswith("]") and body.startswith("["):
                    body = body.rstrip(",") + "]"
                return r.status_code, body
            return fn
        rs = "abc"[:len(kinds)]
        ctl.no_loop = {rid for rid, kind in zip(rs, kinds) if kind.startswith("err/") or kind == "save"}
        for rid, kind in zip(rs, kinds):
            # GET /save-state: on a server whose store is watched its copy (S) and write (P) are steps; otherwise it runs as one step
            ctl.spawn(rid, mk(rid, kind), gated=(kind == "save" and not store))
        ctl.run(schedule, fine)
        out = {"resp": {}, "errors": {}}
        for rid, w in ctl.workers.items():
            if w.error is not None:
                out["errors"][rid] = "%s: %s" % (type(w.error).__name__, w.error)
            else:
                out["resp"][rid] = (w.result[0], times_of(w.result[1]), w.result[1][:120])
        out["lock"], out["clock"] = probe()
        if store:
            import glob, jsonpickle
            files = glob.glob(srv.state_dir + "/" + uid + ".json")
            try:
                with open(files[0]) as f:
                    out["stored_clock"] = int(round(float(jsonpickle.loads(f.read())["data"]["step"])))
            except Exception as e:
                out["stored_clock"] = "unreadable: %s" % e
        st, d = srv.req("GET", "/%s/session-results" % uid)
        out["results_times"] = sorted(float(t) for t in d.get("sm", {}).get("base", {}).get("equations", {}).get("s", {})) if st == 200 and isinstance(d, dict) else None
        st, d = srv.step("i1", 0, "base")
        out["followup"] = (st, S.row_of(d, "base") if st == 200 else d)
        return ctl.events, out
    finally:
        srv.close()


def judge(kinds, events, out):
    """the five clauses of C18 evaluated directly on what the real server did"""
    bad = []
    rs = "abc"[:len(kinds)]
    if out["errors"]:
        bad.append(("request thread raised", out["errors"]))
    alltimes = []
    for rid in rs:
        if rid not in out["resp"]:
            continue
        st, ts, body = out["resp"][rid]
        if st == 200:
            if ts is None:
                bad.append(("unparseable response of %s" % rid, body)); continue
            if any(b != a + 1 for a, b in zip(ts, ts[1:])):
                bad.append(("(2) response of %s holds non-consecutive steps" % rid, ts))
            alltimes += ts
    if len(set(alltimes)) != len(alltimes):
        bad.append(("(3) a simulation time was produced twice", sorted(alltimes)))
    faulty = any(k.endswith("!fault") for k in kinds)      # a request whose save failed answers 500 although its steps were taken
    if faulty:
        if out["results_times"] is not None and out["clock"] != 1 + len(out["results_times"]):
            bad.append(("(4) clock advanced by %d for %d logged steps" % (out["clock"] - 1, len(out["results_times"])), out["results_times"]))
    else:
        if out["clock"] != 1 + len(alltimes):
            bad.append(("(4) clock advanced by %d for %d steps returned" % (out["clock"] - 1, len(alltimes)), sorted(alltimes)))
        if out["results_times"] is not None and sorted(set(alltimes)) != out["results_times"]:
            bad.append(("(4) session-results times differ from the steps returned", (sorted(alltimes), out["results_times"])))
    if "stored_clock" in out and out["stored_clock"] != out["clock"]:
        bad.append(("(6) the external store holds an older session than the one the clients were answered from", {"stored clock": out["stored_clock"], "session clock": out["clock"]}))
    if out["lock"]:
        bad.append(("(5) lock still set after all requests ended", out["lock"]))
    st, row = out["followup"]
    if st != 200:
        bad.append(("(5) follow-up run-step refused", out["followup"]))
    # (1) exclusivity on the event order: between a multi-step request's successful T/K and its U nobody else steps
    holder = None
    for e in events:
        k = kinds[rs.index(e["r"])]
        if e["act"] in ("R", "W") and holder is not None and holder != e["r"]:
            bad.append(("(1) %s stepped while multi-step request %s was in progress" % (e["r"], holder), e)); break
        if e["act"] in ("T", "K") and e["lock"] and k != "step" and holder is None:
            nxt = [x for x in events[events.index(e) + 1:] if x["r"] == e["r"]]
            # the lock attempt succeeded (a refused /save-state still copies the state for its response, but does not write it)
            if nxt and (nxt[0]["act"] in ("R", "U") if k != "save" else [x["act"] for x in nxt[:2]] == ["S", "P"]):
                holder = e["r"]
        if e["act"] == "U" and holder == e["r"]:
            holder = None
    return bad


STORED = [(("save", "step"), {}), (("steps", "step"), {}), (("step", "steps"), {}), (("step", "step"), {}), (("stream", "step"), {}), (("steps", "steps"), {}), (("stream", "step"), {"a": 1})]


def store_race(R, quick, clause_filter=lambda name: name.startswith("(6)") or name.startswith("request thread")):
    """C19/C20 use: two concurrent stepping requests on a server with an external state adapter, forced through the schedules
    under which a server that externalises after releasing the lock leaves an older session in the store (TLC's counterexamples of
    deviation D19c) and through a sample of the others; reports the clauses selected by clause_filter"""
    rng = random.Random(common.seed() + 77)
    n = 0
    for kinds, abort in STORED[:4] if quick else STORED:
        real = lambda sc: tuple(e[0] for e in sc if e[1] == "x")
        mc = tlc.run("StepLock", cons(kinds, abort=abort, store=True), invariants=INV + ["Emit"], spec="Spec", workers=1)
        if mc.violation:
            R.violation("spec:" + mc.violation, {"kinds": kinds, "trace": mc.trace[:2000]})
        dv = tlc.run("StepLock", cons(kinds, '{"D19c_save_after_unlock","D19d_step_save_after_unlock","D19e_save_state_no_lock"}', abort=abort, store=True), invariants=["Emit"], spec="Spec", workers=1)
        late = sorted({real(o["sched"]) for o in dv.emitted if o["stored"] != o["clock"]})
        ok = sorted({real(o["sched"]) for o in mc.emitted})
        cap = 6 if quick else 40
        for sc in (late if len(late) <= cap else rng.sample(late, cap)) + (ok if len(ok) <= cap else rng.sample(ok, cap)):
            events, out = execute(kinds, abort, list(sc), False, True)
            n += 1
            bad = [b for b in judge(kinds, events, out) if clause_filter(b[0])]
            if bad:
                R.violation(bad[0][0], {"kinds": kinds, "abort": abort, "external_state_adapter": True, "schedule": list(sc), "detail": bad[0][1], "events": events, "responses": out["resp"]})
                if len(R.violations) >= 12:
                    return n
    return n


def run(tier, replay_file=None):
    R = common.Run("C18", tier, "model_checking")
    quick = tier == "quick"
    rng = random.Random(common.seed())
    KINDS = ["step", "steps", "stream"]
    combos = [(k, {}) for k in itertools.product(KINDS, repeat=2)]
    combos += [(("stream", "step"), {"a": 1}), (("stream", "steps"), {"a": 2}), (("stream", "stream"), {"a": 1})]
    # requests whose body the handler rejects, alone and next to a well-formed stepping request
    errs = sorted(ERR_BODIES)
    combos += [(("err/" + v,), {}) for v in errs]
    combos += [(("err/" + v, KINDS[i % 3]), {}) for i, v in enumerate(errs)] + [((KINDS[(i + 1) % 3], "err/" + v), {}) for i, v in enumerate(errs)]
    # a GET /save-state between the steps of stepping requests, and a run-steps whose own save fails
    combos += [(("steps", "save"), {}), (("stream", "save"), {}), (("save", "step"), {}), (("steps!fault",), {}), (("steps!fault", "step"), {})]
    triples = [(("steps", "stream", "step"), {"b": 1}), (("step", "step", "steps"), {}), (("stream", "steps", "steps"), {}),
               (("steps", "save", "step"), {}), (("stream", "save", "steps"), {}),
               (("stream", "steps", "step"), {})]
    if not quick:
        triples += [(k, {}) for k in itertools.product(KINDS, repeat=3)]
    R.cov["states"], R.cov["transitions"] = 0, 0
    plans = []
    # on a server with an external state adapter every stepping request externalises the session: the copy (S) and the write (P)
    # are steps of their own, and the store must hold the current session when the requests have ended
    stored = STORED
    for kinds, abort, store in [(k, a, "save" in k) for k, a in combos + triples] + [(k, a, True) for k, a in stored]:
        # 1. design: all interleavings of the intended protocol satisfy the clauses
        mc = tlc.run("StepLock", cons(kinds, abort=abort, store=store), invariants=INV + ["Emit"], spec="Spec", workers=1)
        if mc.violation:
            R.violation("spec:" + mc.violation, {"kinds": kinds, "trace": mc.trace[:2000]})
        R.cov["states"] += mc.distinct
        R.cov["transitions"] += mc.generated
        real = lambda sc: tuple(e[0] for e in sc if e[1] == "x")       # the steps the implementation has a scheduling point for
        scheds = sorted({real(o["sched"]) for o in mc.emitted})
        late = []
        if store:
            # schedules under which a server that externalises AFTER releasing the lock leaves an older session in the store
            dv = tlc.run("StepLock", cons(kinds, '{"D19c_save_after_unlock","D19d_step_save_after_unlock","D19e_save_state_no_lock"}', abort=abort, store=True), invariants=["Emit"], spec="Spec", workers=1)
            late = sorted({real(o["sched"]) for o in dv.emitted if o["stored"] != o["clock"]})
            R.cov["schedules_store_race"] = R.cov.get("schedules_store_race", 0) + len(late)
        plans.append((kinds, abort, scheds, store, late))
    # the listed deviations of the old code must violate the clauses in the spec (the spec can tell them apart)
    for dev, kinds, inv in (('{"D14b_step_nolock"}', ("step", "step"), "Serial"), ('{"D14b_check_then_lock"}', ("steps", "steps"), "Exclusive"),
                            ('{"D14a_stream_no_unlock"}', ("stream", "step"), "Released"),
                            ('{"D14c_close_unlocks"}', ("stream", "steps", "step"), "Exclusive"),
                            ('{"D19c_save_after_unlock"}', ("steps", "step"), "StoreCurrent"), ('{"D19e_save_state_no_lock"}', ("save", "step"), "StoreCurrent")):
        dv = tlc.run("StepLock", cons(kinds, dev, store=inv == "StoreCurrent"), invariants=INV, view="View", spec="Spec")
        if dv.violation is None:
            raise common.Machinery("deviation %s does not violate any clause in the spec" % dev)
    # 2. spec -> code: force TLC's schedules; 3. code -> spec: validate the recorded traces with TLC
    n_sched = 0
    for kinds, abort, scheds, store, late in plans:
        cap = (12 if len(kinds) == 2 else 8) if quick else (80 if len(kinds) == 2 else 40)
        if quick and any(k.startswith("err/") for k in kinds):
            cap = 4
        pick = scheds if len(scheds) <= cap else rng.sample(scheds, cap)
        if kinds[0] == "stream" and len(kinds) == 3 and not abort:
            # the window between the end of a stream (lock released) and the closing of its response: another request is accepted
            # in it, then the response is closed, then the third request arrives - every such schedule
            def window(sc):
                na = sc.count("a")
                return all(x == "a" for x in sc[:na - 1]) and sc[na - 1] != "a" and sc[na] == "a"
            shaped = [sc for sc in scheds if window(sc)]
            R.cov["schedules_close_window"] = R.cov.get("schedules_close_window", 0) + len(shaped)
            pick = list(pick) + [sc for sc in (shaped if not quick or len(shaped) <= 30 else rng.sample(shaped, 30)) if sc not in pick]
        if store:
            pick = list(pick) + [sc for sc in (late if len(late) <= cap else rng.sample(late, cap)) if sc not in pick]
        traces = []
        runs = [(list(sc), False) for sc in pick]
        if len(kinds) == 2 and not any(k.startswith("err/") for k in kinds) and not abort and not store:
            # line-level preemption INSIDE try_lock for the first two stepping requests a fresh session sees:
            # a runs i lines, b runs j lines, then they alternate line by line
            rng2 = range(0, 4) if quick else range(0, 7)
            runs += [(["a"] * i + ["b"] * j, True) for i in rng2 for j in rng2]
        for sc, fine in runs:
            events, out = execute(kinds, abort, list(sc), fine, store)
            n_sched += 1
            R.add("traces_validated_against_impl")
            bad = judge(kinds, events, out)
            if bad:
                R.violation(bad[0][0], {"kinds": kinds, "abort": abort, "external_state_adapter": store, "schedule": list(sc), "lines_inside_try_lock_are_steps": fine, "detail": bad[0][1],
                                        "more": [b[0] for b in bad[1:4]], "events": events, "responses": out["resp"]})
            traces.append(events)
            if len(R.violations) >= 12:
                break
        if traces:
            c = cons(kinds, abort=abort, store=store)
            c["Traces"] = tlc.tla([[{"r": e["r"], "act": e["act"], "lock": e["lock"], "clock": e["clock"]} for e in t] for t in traces])
            tv = tlc.run("StepLockTrace", c, init="TraceInit", next="TraceNext", invariants=INV, deadlock=True, workers=1)
            R.add("tlc_trace_validations", len(traces))
            if tv.violation:
                import re
                tids = re.findall(r"/\\ tid = (\d+)", tv.trace)
                ls = re.findall(r"/\\ l = (\d+)", tv.trace)
                t = int(tids[-1]) if tids else 1
                li = int(ls[-1]) if ls else 1
                R.violation("recorded trace is not a behaviour of StepLock (%s)" % tv.violation,
                            {"kinds": kinds, "abort": abort, "external_state_adapter": store, "unexplained_event_index": li,
                             "unexplained_event": traces[t - 1][li - 1] if li <= len(traces[t - 1]) else "trace ended with unfinished requests",
                             "schedule": list(runs[t - 1][0]), "lines_inside_try_lock_are_steps": runs[t - 1][1], "events": traces[t - 1], "tlc": tv.trace[-600:]})
        if len(R.violations) >= 12:
            break
    R.cov["schedules_forced"] = n_sched
    R.cov["kind_combinations"] = len(plans)
    if plans:
        R.sample({"kinds": plans[0][0], "schedule": list(plans[0][2][0])})
    # negative control: a trace with a corrupted lock value must be rejected by the trace specification
    events, out = execute(("steps", "step"), {}, ["a", "a", "b", "a"])
    evil = [dict(e) for e in events]
    evil[0]["lock"] = False
    c = cons(("steps", "step"))
    c["Traces"] = tlc.tla([[{"r": e["r"], "act": e["act"], "lock": e["lock"], "clock": e["clock"]} for e in evil]])
    tv = tlc.run("StepLockTrace", c, init="TraceInit", next="TraceNext", invariants=INV, deadlock=True, workers=1)
    if not tv.violation:
        raise common.Machinery("negative control: corrupted trace accepted")
    R.assumptions += ["schedules are forced at the source lines that test/take/release the lock and read/write the session clock (anchors found by text); preemption inside one such line is not explored",
                      "N = 2 steps per run-steps, stop time 3, 2-3 concurrent requests"]
    return R.finish()
