"""C06 - scenarios are isolated from each other and from the model they were created from."""
import copy
from .. import tlc, gen, common, scn_replay

OPS = '{"RegMgr","Register","Run","RestRun","SetProp","Begin","BeginWide","BeginMgrs","Step","End","ResetCache"}'       # (ReRegister only in bounded families: every re-registration allocates a new dictionary object)


def consts(mgrs='{"m1","m2"}', scs='{"a","b"}', kv='{0,3,5}', tabs='{"","B","C"}', rss='{"","r1","r2"}', dev='{}', ops=OPS):
    return dict(Mgrs=mgrs, Scs=scs, KVals=kv, Tabs=tabs, RSs=rss, StepOnlyListed='TRUE', Dev=dev, Ops=ops)


def run(tier, replay_file=None):
    R = common.Run("C06", tier, "model_checking")
    quick = tier == "quick"
    R.cov["states"], R.cov["transitions"] = 0, 0
    for mg, sc in ([('{"m1"}', '{"a","b"}')] if quick else [('{"m1"}', '{"a","b"}'), ('{"m1","m2"}', '{"a"}')]):
        mc = tlc.run("Scenario", dict(consts(mg, sc, kv='{0,3}', tabs='{"","B"}', rss='{"","r1"}'), L='99'),
                     invariants=["BaseIntact", "Exact", "NoOverrideMeansModel"], properties=["Isolated", "SiblingsKeep"], view="View", spec="Spec", timeout=3000)
        if mc.violation:
            R.violation("spec:" + mc.violation, {"trace": mc.trace[:3000]})
        R.cov["states"] += mc.distinct
        R.cov["transitions"] += mc.generated
    dv = tlc.run("Scenario", dict(consts('{"m1"}', '{"a","b"}', kv='{0,3}', tabs='{"","B"}', rss='{""}', dev='{"D06_points_shared"}'), L='99'),
                 invariants=["BaseIntact"], view="View", spec="Spec", timeout=3000)
    if dv.violation != "BaseIntact":
        raise common.Machinery("the shared-dictionary deviation does not violate BaseIntact in the spec")
    # spec -> code: after every action every scenario and the base model are evaluated and compared with a fresh computation
    sets = []
    for n, (mg, sc) in enumerate([('{"m1","m2"}', '{"a","b"}'), ('{"m1"}', '{"a","b","c"}')]):
        hs, _ = gen.histories("Scenario", consts(mg, sc), 14 if quick else 22, simulate=20 if quick else 250,
                              seed=common.seed() * 10 + n + 1, cache=False)
        sets += hs
    bfs, _ = gen.histories("Scenario", consts('{"m1"}', '{"a","b"}', kv='{0,3}', tabs='{"","B"}', rss='{""}',
                                              ops='{"RegMgr","Register","RestRun","Begin","Step","End"}'), 3 if quick else 5)
    # a session over both scenarios of a manager, step settings for one of them only (either one): all histories of this shape
    wide, _ = gen.histories("Scenario", consts('{"m1"}', '{"a","b"}', kv='{0,3}', tabs='{"","B"}', rss='{""}',
                                               ops='{"RegMgr","Register","Begin","BeginWide","Step","End","Run"}'), 6,
                            defs='MC_Wide == LET n == Len(hist) IN /\\ (n = 0 => hist\'[1].op = "RegMgr") /\\ (n \\in {1, 2} => hist\'[n + 1].op = "Register")\n'
                                 '                                  /\\ (n = 3 => hist\'[4].op = "Begin" /\\ hist\'[4].sibs # {}) /\\ (n \\in {4, 5} => hist\'[n + 1].op = "Step")\n',
                            extra_cfg={"action_constraints": ["MC_Wide"]})
    bfs = bfs + (wide if not quick else __import__("random").Random(common.seed()).sample(wide, min(len(wide), 120)))
    R.cov["wide_session_histories"] = len(wide)
    # ... and a session over the same-named scenario of TWO managers registered from one model, settings for one manager only
    wide2, _ = gen.histories("Scenario", consts('{"m1","m2"}', '{"a"}', kv='{0,3}', tabs='{""}', rss='{""}',
                                                ops='{"RegMgr","Register","Begin","BeginWide","BeginMgrs","Step","End","Run"}'), 7,
                             defs='MC_Wide2 == LET n == Len(hist) IN /\\ (n \\in {0, 1} => hist\'[n + 1].op = "RegMgr") /\\ (n \\in {2, 3} => hist\'[n + 1].op = "Register")\n'
                                  '                                   /\\ (n = 4 => hist\'[5].op = "Begin" /\\ hist\'[5].sibs # {}) /\\ (n \\in {5, 6} => hist\'[n + 1].op \\in {"Step", "End", "Run"})\n',
                             extra_cfg={"action_constraints": ["MC_Wide2"]})
    bfs = bfs + (wide2 if not quick else __import__("random").Random(common.seed() + 1).sample(wide2, min(len(wide2), 120)))
    R.cov["two_manager_session_histories"] = len(wide2)
    # a scenario name registered a second time with other settings (after it was run): every such history
    rereg, _ = gen.histories("Scenario", consts('{"m1"}', '{"a"}', kv='{0,3}', tabs='{"","B"}', rss='{"","r1"}',
                                                ops='{"RegMgr","Register","ReRegister","Run"}'), 5,
                             defs='MC_ReReg == LET n == Len(hist) IN /\\ (n = 0 => hist\'[1].op = "RegMgr") /\\ (n \\in {1, 3} => hist\'[n + 1].op = "Register") /\\ (n \\in {2, 4} => hist\'[n + 1].op = "Run")\n',
                             extra_cfg={"action_constraints": ["MC_ReReg"]})
    bfs = bfs + (rereg if not quick else __import__("random").Random(common.seed() + 2).sample(rereg, min(len(rereg), 150)))
    R.cov["reregistration_histories"] = len(rereg)
    R.cov["bfs_histories"], R.cov["sim_histories"] = len(bfs), len(sets)
    probes = 0
    import time as _time
    t_end = _time.time() + (20 * 60 if quick else 40 * 60)        # the replays of one run are bounded in time (recorded when reached)
    todo = sets + bfs[::7] + bfs if not quick else bfs + sets     # thorough: the long random histories and a stride of every family first
    for hn, hist in enumerate(todo):
        if _time.time() > t_end:
            R.cov["time_budget_reached_histories_skipped"] = len(todo) - hn
            break
        bad = scn_replay.replay(hist)
        R.add("traces_validated_against_impl")
        probes += sum(sum(len(v) for v in (h["all"].values() if isinstance(h["all"], dict) else [])) + 1 for h in hist)
        if bad:
            R.violation(bad["clause"], bad)
            if len(R.violations) >= 20:
                break
    R.cov["scenario_and_base_probes"] = probes
    if not R.violations and probes < 1500:
        raise common.Machinery("too few probes (vacuous)")
    R.sample([{a: b for a, b in h.items() if a not in ("all", "base")} for h in sets[0]])
    # negative control: a history claiming another scenario changed must be rejected
    ctl = None
    for hist in sets:
        for i, h in enumerate(hist):
            allm = h["all"] if isinstance(h["all"], dict) else {}
            for m, scs in allm.items():
                if isinstance(scs, dict) and scs:
                    ctl = copy.deepcopy(hist[:i + 1])
                    sc0 = sorted(scs)[0]
                    ctl[i]["all"][m][sc0]["k"] += 1
                    break
            if ctl:
                break
        if ctl:
            break
    if ctl is None or scn_replay.replay(ctl) is None:
        raise common.Machinery("negative control not rejected")
    R.assumptions += ["reference model: constant, graphical function, flow, stock; results compared with a fresh computation carrying exactly the settings in force",
                      "a scenario in a live session is not run in batch at the same time; run-step settings only on scenarios that list the value (KF-C07-1)"]
    return R.finish()
