"""C05 - the simulated time grid is exact: no drift, gaps or duplicates for any dt."""
import json, random
from decimal import Decimal
from .. import tlc, common

SCALE = 10 ** 4
STARTS = [0, 10000, 5000, 1000, 22500, 100000, 1003000, 0 - 10000, 0 - 5000, 0 - 3000]     # 0, 1, .5, .1, 2.25, 10, 100.3, -1, -.5, -.3
# a wide lattice of start times for the grid function alone (cheap): every tenth in 0..100, some hundredths and thousandths
WIDE_STARTS = [k * 1000 for k in range(0, 1001)] + [k * 100 + 50 for k in range(0, 1000, 7)] + [80500, 46250, 99990, 640100, 20201000]
DTS = [10000, 20000, 5000, 2500, 1250, 625, 1000, 2000, 500, 200, 100, 3000, 7000]   # 1, 2, .5, .25, .125, .0625, .1, .2, .05, .02, .01, .3, .7


def fl(k):
    """the float a user writes for the decimal number k / 10^4 (the correctly rounded value of the literal)"""
    return float(Decimal(k) / SCALE)


def build_model(start, stop, dt):
    BPTK_Py = common.use_repo()
    from BPTK_Py import Model
    m = Model(starttime=start, stoptime=stop, dt=dt, name="grid")
    s = m.stock("s"); f = m.flow("f"); k = m.constant("k")
    k.equation = 1.0
    f.equation = k
    s.initial_value = 0.0
    s.equation = f
    return m


def exact(labels, exp):
    """labels must be exactly the decimal grid values, one each, in order"""
    labels = [float(x) for x in labels]
    if labels != exp or [repr(a) for a in labels] != [repr(b) for b in exp]:
        return {"expected": exp[:12] + (["..."] if len(exp) > 12 else []), "observed": labels[:14] + (["..."] if len(labels) > 14 else []),
                "n_expected": len(exp), "n_observed": len(labels)}
    return None


def check_case(R, case, channels):
    BPTK_Py = common.use_repo()
    from BPTK_Py.util import timerange
    start, dt, stop = fl(case["start"]), fl(case["dt"]), fl(case["stop"])
    exp = [fl(x) for x in case["labels"]]
    info = {"start": start, "dt": dt, "stop": stop, "steps": case["n"]}

    def bad(chan, d):
        d = dict(d); d.update(info); d["channel"] = chan
        R.violation("time labels of %s are not the decimal grid" % chan, d)
    # 1. util.timerange, inclusive form
    d = exact(timerange(start, stop, dt, exclusive=False), exp)
    R.add("label_sequences_compared")
    if d: bad("util.timerange(start, stop, dt, exclusive=False)", d)
    if "model" not in channels:
        return
    # 2. batch run through bptk in the three formats
    m = build_model(start, stop, dt)
    b = BPTK_Py.bptk()
    try:
        b.register_model(m, scenario_manager="sm", scenario={"base": {}})
        df = b.run_scenarios(scenario_managers=["sm"], scenarios=["base"], equations=["s", "f"], return_format="df")
        d = exact(list(df.index), exp); R.add("label_sequences_compared")
        if d: bad("run_scenarios(df).index", d)
        elif "sm_base_s" not in df.columns and "s" not in df.columns:
            bad("run_scenarios(df): requested equation s is missing from the result", {"columns": list(df.columns)})
        else:
            want = [fl(case["dt"] * i) for i in range(len(exp))]      # s(t) = t - start
            got = list(df["sm_base_s"] if "sm_base_s" in df.columns else df["s"])
            if any(abs(a - w) > 1e-9 * max(1, abs(w)) for a, w in zip(got, want)):
                bad("run_scenarios(df) values (extra or missing integration steps)", {"expected": want[:12], "observed": got[:12]})
        dd = b.run_scenarios(scenario_managers=["sm"], scenarios=["base"], equations=["s"], return_format="dict")
        d = exact(list(dd["sm"]["base"]["equations"]["s"].index), exp); R.add("label_sequences_compared")
        if d: bad("run_scenarios(dict) keys", d)
        js = b.run_scenarios(scenario_managers=["sm"], scenarios=["base"], equations=["s"], return_format="json")
        js = json.loads(js) if isinstance(js, str) else js
        keys = list(js["sm"]["base"]["equations"]["s"].keys())
        d = exact(keys, exp); R.add("label_sequences_compared")
        if d: bad("run_scenarios(json) keys", d)
        # 3. Element.plot(return_df=True)
        m2 = build_model(start, stop, dt)
        d = exact(list(m2.stocks["s"].plot(return_df=True).index), exp); R.add("label_sequences_compared")
        if d: bad("Element.plot(return_df=True).index", d)
        # 3b. a plot on a grid of its own: the labels are that grid (every second point of the model's), not the model's
        if len(exp) >= 3:
            d = exact(list(m2.stocks["s"].plot(dt=2 * dt, return_df=True).index), exp[::2]); R.add("label_sequences_compared")
            if d: bad("Element.plot(dt=2*dt, return_df=True).index", d)
            m3 = build_model(start, stop, dt)
            d = exact(list(m3.flows["f"].plot(starttime=exp[1], stoptime=exp[-2], return_df=True).index), exp[1:-1]); R.add("label_sequences_compared")
            if d: bad("Element.plot(starttime=t1, stoptime=t(n-1), return_df=True).index", d)
        # 4. stepwise session: one label per step, clock ends after the stop time
        if "session" in channels:
            b.begin_session(scenarios=["base"], scenario_managers=["sm"], equations=["s"], dt=dt)
            keys = []
            for _ in range(len(exp) + 2):
                r = b.run_step()
                if r is None or "msg" in r:
                    break
                ks = list(r["sm"]["base"]["s"].keys())
                keys += ks
            d = exact(keys, exp); R.add("label_sequences_compared")
            if d: bad("run_step result keys", d)
            sr = b.session_results(index_by_time=True)
            d = exact(list(sr.keys()), exp); R.add("label_sequences_compared")
            if d: bad("session_results keys", d)
            b.end_session()
        # 4b. the same grid requested through a scenario's runspecs on a model built with coarser run specs
        if "session" in channels:
            mc_ = build_model(0.0, 5.0, 1.0)
            b.register_model(mc_, scenario_manager="smc", scenario={"fine": {"runspecs": {"starttime": start, "stoptime": stop, "dt": dt}}})
            df = b.run_scenarios(scenario_managers=["smc"], scenarios=["fine"], equations=["s"], return_format="df")
            d = exact(list(df.index), exp) if df is not None else {"expected": exp[:6], "observed": "run_scenarios returned nothing"}
            R.add("label_sequences_compared")
            if d: bad("run_scenarios(df).index of a scenario with runspecs", d)
            else:
                col = [c for c in df.columns if c.endswith("s")][0]
                want = [fl(case["dt"] * i) for i in range(len(exp))]
                got = list(df[col])
                if any(abs(a - w) > 1e-9 * max(1, abs(w)) for a, w in zip(got, want)):
                    bad("values of a scenario with runspecs (elements evaluated off the grid)", {"expected": want[:12], "observed": got[:12]})
        # 5. every arithmetic route to a grid point evaluates to the same value and the same memo cell
        m3 = build_model(start, stop, dt)
        s = m3.stocks["s"]
        base = [s(t) for t in exp]
        cells = len(m3.memo["s"])
        n = len(exp) - 1
        routes = {"start + i*dt": [start + i * dt for i in range(n + 1)]}
        acc, rep = start, []
        for i in range(n + 1):
            rep.append(acc); acc = acc + dt
        routes["repeated addition"] = rep
        acc, down = stop, []
        for i in range(n + 1):
            down.append(acc); acc = acc - dt
        routes["stop - j*dt chain"] = list(reversed(down))
        for name, ts in routes.items():
            vals = [s(t) for t in ts]
            R.add("routes_compared")
            if any(abs(a - w) > 1e-12 for a, w in zip(vals, base)):
                k = next(i for i, (a, w) in enumerate(zip(vals, base)) if abs(a - w) > 1e-12)
                bad("route '%s'" % name, {"grid_index": k, "t": repr(ts[k]), "expected": base[k], "observed": vals[k]})
            elif len(m3.memo["s"]) != cells:
                bad("route '%s' created extra memo cells" % name, {"expected": cells, "observed": len(m3.memo["s"])})
        # 6. cold, top-down evaluation: the first evaluation on an empty memo is at a late grid point, so every earlier
        #    time is reached by the stock's own t - dt recursion; the value must be the one the bottom-up run reports
        m4 = build_model(start, stop, dt)
        s4 = m4.stocks["s"]
        for k in sorted({n, n // 2, (2 * n) // 3, min(n, 10), min(n, 5), min(n, 3)}):
            m4.reset_cache()
            v = s4(exp[k])
            R.add("routes_compared")
            if abs(v - base[k]) > 1e-12:
                bad("cold top-down evaluation", {"grid_index": k, "t": repr(exp[k]), "expected": base[k], "observed": v})
                break
            off = [t for t in m4.memo["s"] if t not in exp]
            if off:
                bad("cold top-down evaluation memoised times off the grid", {"grid_index": k, "t": repr(exp[k]), "off_grid_keys": [repr(t) for t in off[:5]]})
                break
    finally:
        b.destroy()


def run(tier, replay_file=None):
    R = common.Run("C05", tier, "model_checking")
    quick = tier == "quick"
    rng = random.Random(common.seed())
    ns = "{1, 2, 3, 7, 10, 25}" if quick else "{1, 2, 3, 5, 7, 10, 16, 25, 60, 120}"
    mc = tlc.run("TimeGrid", dict(Starts="{" + ",".join(map(str, STARTS)) + "}", Dts="{" + ",".join(map(str, DTS)) + "}", Ns=ns),
                 invariants=["Increasing", "OnGrid", "NoGap", "EndsAtStop", "Emit"], spec="Spec", workers=4)
    if mc.violation:
        R.violation("spec:" + mc.violation, {"trace": mc.trace[:2000]})
    R.cov["states"], R.cov["transitions"] = mc.distinct, mc.generated
    cases = mc.emitted
    R.cov["grids_enumerated"] = len(cases)
    R.cov["exhaustive"] = True
    # all grids through util.timerange; a (seeded) subset through the model / session channels
    heavy = set(rng.sample(range(len(cases)), min(len(cases), 110 if quick else 500)))
    for k, c in enumerate(cases):
        check_case(R, c, {"model", "session"} if k in heavy and c["n"] <= 60 else set())
        R.add("traces_validated_against_impl")
        if len(R.violations) >= 25:
            break
    # util.timerange over the wide lattice of start times (dt = .1, .25, .05; 10 steps)
    from BPTK_Py.util import timerange
    wide = 0
    for st in WIDE_STARTS:
        for dtk in (1000, 2500, 500):
            labels = [st + i * dtk for i in range(11)]
            d = exact(timerange(fl(st), fl(labels[-1]), fl(dtk), exclusive=False), [fl(x) for x in labels])
            wide += 1
            if d:
                d.update({"start": fl(st), "dt": fl(dtk), "stop": fl(labels[-1]), "channel": "util.timerange(start, stop, dt, exclusive=False)"})
                R.violation("time labels of util.timerange are not the decimal grid (wide lattice of start times)", d)
                break
        if len(R.violations) >= 25:
            break
    R.cov["wide_lattice_grids"] = wide
    R.sample({"start": fl(cases[5]["start"]), "dt": fl(cases[5]["dt"]), "labels": [fl(x) for x in cases[5]["labels"]][:8]})
    # negative control
    ctl = common.Run("C05", tier, "model_checking")
    c = dict(cases[0]); c["labels"] = list(c["labels"]); c["labels"][-1] += 1
    check_case(ctl, c, set())
    if not ctl.violations:
        raise common.Machinery("negative control not rejected")
    R.assumptions += ["start and dt are decimals with at most four digits; the expected label is the float of the decimal literal",
                      "stop time on the grid; stepwise sessions are begun with the model's dt"]
    return R.finish()
