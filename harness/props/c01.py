"""C01 - SD DSL simulation equals the explicit-Euler solution of the model."""
import math
from fractions import Fraction
from .. import common, sd_gen, sd_dsl
from ..sd_gen import fr


def times(rs):
    return [float(fr(rs["start"]) + k * fr(rs["dt"])) for k in range(rs["n"] + 1)]


def compare(R, case, get, channel, stats, whole_run=False, elements=None):
    """get(element, k, t) -> float"""
    ts = times(case["rs"])
    # the quantifier excludes trajectories that are not finite: trend divides by its average, and a run that evaluates
    # the whole trajectory at once cannot report the element when one of its values does not exist
    skip = {"tr"} if whole_run and any(fr(row["tr"]) is None for row in case["traj"]) else set()
    for k, row in enumerate(case["traj"]):
        for el in (elements or sd_dsl.ELEMENTS):
            if el in skip:
                continue
            exp = fr(row[el])
            if exp is None:
                stats["undef"] = stats.get("undef", 0) + 1
                continue
            try:
                got = get(el, k, ts[k])
            except Exception as e:
                got = "%s: %s" % (type(e).__name__, str(e)[:80])
            stats["compared"] = stats.get("compared", 0) + 1
            if not isinstance(got, (int, float)) or not math.isclose(got, float(exp), rel_tol=1e-9, abs_tol=1e-9):
                R.violation("element %s differs from the explicit-Euler value" % el,
                            {"element": el, "t": ts[k], "grid_index": k, "expected": float(exp), "observed": got, "channel": channel,
                             "runspec": {x: str(fr(v)) if isinstance(v, list) else v for x, v in case["rs"].items()},
                             "parameters": {x: (str(fr(v)) if isinstance(v, list) and len(v) == 2 and isinstance(v[0], int) else v) for x, v in case["P"].items()}})
                return False
    return True


def run(tier, replay_file=None):
    R = common.Run("C01", tier, "model_checking")
    quick = tier == "quick"
    BPTK_Py = common.use_repo()
    trajs, st = sd_gen.trajectories(sd_gen.PARAMS, sd_gen.QUICK_RS + ([] if quick else sd_gen.MORE_RS))
    R.cov["states"], R.cov["transitions"] = st["distinct"], st["generated"]
    R.cov["trajectories"] = len(trajs)
    stats = {}
    for n, case in enumerate(trajs):
        # observation point 1: element(t) / evaluate_equation
        m, start, stop, dt = sd_dsl.build(case["P"], case["rs"], "m%d" % n, spelling=n)
        ok = compare(R, case, lambda el, k, t: m.evaluate_equation(el, t), "Model.evaluate_equation", stats)
        R.add("traces_validated_against_impl")
        if ok:
            # observation point 2: bptk.run_scenarios dataframe
            m2, *_ = sd_dsl.build(case["P"], case["rs"], "r%d" % n, spelling=n + 1)
            b = BPTK_Py.bptk()
            try:
                b.register_model(m2, scenario_manager="sm", scenario={"base": {}})
                df = b.run_scenarios(scenario_managers=["sm"], scenarios=["base"], equations=list(sd_dsl.ELEMENTS), return_format="df")
                cols = {el: (el if el in df.columns else "sm_base_" + el) for el in sd_dsl.ELEMENTS}
                idx = list(df.index)
                def get_df(el, k, t):
                    if len(idx) != len(case["traj"]):
                        return "index %s" % idx
                    return float(df[cols[el]].iloc[k])
                ok = compare(R, case, get_df, "bptk.run_scenarios(df)", stats, whole_run=True)
            finally:
                b.destroy()
        if ok and n % 2 == 0:
            # observation point 2b: the same model built through nested Module objects (fully qualified element names)
            m6, *_ = sd_dsl.build(case["P"], case["rs"], "q%d" % n, spelling=n + 3, modules=True)
            ok = compare(R, case, lambda el, k, t: m6.evaluate_equation(sd_dsl.PREFIX + el, t), "Model.evaluate_equation of a model built through Modules", stats)
            if ok:
                b = BPTK_Py.bptk()
                try:
                    b.register_model(m6, scenario_manager="smq", scenario={"base": {}})
                    names = [sd_dsl.PREFIX + el for el in sd_dsl.ELEMENTS]
                    df = b.run_scenarios(scenario_managers=["smq"], scenarios=["base"], equations=names, return_format="df")
                    cols = {el: next((c for c in df.columns if c == sd_dsl.PREFIX + el or c.endswith("_" + sd_dsl.PREFIX + el)), None) for el in sd_dsl.ELEMENTS}
                    ok = compare(R, case, lambda el, k, t: float(df[cols[el]].iloc[k]) if cols[el] is not None else "column missing: %s" % list(df.columns)[:4],
                                 "bptk.run_scenarios(df) of a model built through Modules", stats, whole_run=True)
                finally:
                    b.destroy()
            R.add("built_through_modules")
        if ok and n % 3 == 0:
            # observation point 3: Element.plot(return_df=True)
            m3, *_ = sd_dsl.build(case["P"], case["rs"], "p%d" % n, spelling=n + 2)
            frames = {}
            def get_plot(el, k, t):
                if el not in frames:
                    frames[el] = m3.converters.get(el, None) or m3.stocks.get(el) or m3.flows.get(el) or m3.biflows.get(el)
                    frames[el] = frames[el].plot(return_df=True)
                return float(frames[el][el].iloc[k])
            compare(R, case, get_plot, "Element.plot(return_df=True)", stats, whole_run=True)
        nxt = next((c for c in trajs[n + 1:] + trajs[:n] if c["P"] == case["P"] and c["rs"] != case["rs"]), None) if n % 4 == 0 else None
        if ok and nxt is not None:
            # observation point 4: the SAME model object re-run under another run specification (what a scenario with
            # run specs does to its clone): run specs changed in place, cache reset, evaluated again
            from BPTK_Py.sdsimulation import SdSimulation
            ts = times(nxt["rs"])
            SdSimulation(model=m).change_runspecs(ts[0], ts[-1], float(fr(nxt["rs"]["dt"])))
            m.reset_cache()
            indep = [e for e in sd_dsl.ELEMENTS if e not in ("dl", "pl")]      # delay / pulse capture dt when their equation is built
            ok4 = compare(R, nxt, lambda el, k, t: m.evaluate_equation(el, t), "the same model after its run specs were changed in place", stats, elements=indep)
            if ok4:
                # ... and the whole run of that simulation object: it must be reported on the NEW grid
                sds = SdSimulation(model=m)
                sds.change_runspecs(ts[0], ts[-1], float(fr(nxt["rs"]["dt"])))
                m.reset_cache()
                dfr = sds.start(output=["frame"], equations=list(indep))
                idx = [float(t) for t in dfr.index]
                if len(idx) != len(ts) or any(abs(x - y) > 1e-9 for x, y in zip(idx, ts)):
                    R.violation("the run of a simulation whose run specs were changed does not cover the new time grid",
                                {"expected": ts[:3] + ["...", ts[-1]], "n_expected": len(ts), "observed": idx[:3] + ["...", idx[-1] if idx else None], "n_observed": len(idx),
                                 "runspec": {x: str(fr(v)) if isinstance(v, list) else v for x, v in nxt["rs"].items()}})
                else:
                    compare(R, nxt, lambda el, k, t: float(dfr[el].iloc[k]), "SdSimulation.start after change_runspecs", stats, whole_run=True, elements=[e for e in indep if e != "tr"])
            R.add("rerun_with_changed_runspecs")
        if ok:
            # observation point 5: a model that is EDITED into another member of the family (constants, initial value, table,
            # every stock's equation re-assigned; s3 and s4 exchange their equations) equals that member's trajectory
            other = next((c for c in trajs if c["rs"] == case["rs"] and c["P"] != case["P"]), None)
            if other is not None:
                m5, *_ = sd_dsl.build(case["P"], case["rs"], "e%d" % n, spelling=n)
                if n % 2:
                    m5.evaluate_equation("s4", times(case["rs"])[-1]); m5.evaluate_equation("s3", times(case["rs"])[-1])
                sd_dsl.edit(m5, other["P"], spelling=n)
                swap = {"s3": "s4", "s4": "s3"}
                compare(R, other, lambda el, k, t: m5.evaluate_equation(swap.get(el, el), t), "a model edited in place into these parameters (s3/s4 exchanged)",
                        stats, elements=sd_dsl.EDITABLE)
                R.add("edited_in_place")
        if len(R.violations) >= 20:
            break
    R.cov["values_compared"] = stats.get("compared", 0)
    R.cov["skipped_undefined_reference"] = stats.get("undef", 0)
    if not R.violations and stats.get("compared", 0) < 5000:
        raise common.Machinery("too few values compared: vacuous")
    t0 = trajs[0]
    R.sample({"runspec": t0["rs"], "row_at_index_2": t0["traj"][2]})
    # negative control
    ctl = common.Run("C01", tier, "model_checking")
    import copy
    c = copy.deepcopy(trajs[0]); c["traj"][3]["s1"][0] += 1
    m, *_ = sd_dsl.build(c["P"], c["rs"], "ctl")
    if compare(ctl, c, lambda el, k, t: m.evaluate_equation(el, t), "control", {}):
        raise common.Machinery("negative control not rejected")
    R.assumptions += ["reference family: 2 stocks (non-negative and bidirectional in/outflows, first-order outflow), converters, lookup over TIME and over a stock, delay, smooth, trend, step, pulse; delay, pulse and step times are multiples of dt",
                      "trend: exponential average initialised to the DSL's initial_value argument; step as the DSL documents it (height after t0)",
                      "values whose exact rational reference exceeds the spec's number range are skipped; tolerance 1e-9 relative"]
    return R.finish()
