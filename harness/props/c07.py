"""C07 - a scenario's settings determine its results exactly."""
from .. import tlc, gen, common, scn_replay
from .c06 import consts

PHASE = ('MC_Phase == (hist # <<>> /\\ hist[Len(hist)].op \\notin {"RegMgr", "Register"}) => hist\'[Len(hist\')].op \\notin {"RegMgr", "Register"}\n')


def run(tier, replay_file=None):
    R = common.Run("C07", tier, "model_checking")
    quick = tier == "quick"
    mc = tlc.run("Scenario", dict(consts('{"m1"}', '{"a","b"}', kv='{0,3,5}', tabs='{"","B"}', rss='{"","r1"}'), L='99'),
                 invariants=["Exact", "NoOverrideMeansModel", "BaseIntact"], properties=["Isolated"], view="View", spec="Spec", timeout=3000)
    if mc.violation:
        R.violation("spec:" + mc.violation, {"trace": mc.trace[:3000]})
    R.cov["states"], R.cov["transitions"] = mc.distinct, mc.generated
    # the listed deviation (step settings stick to the scenario's model) must violate Exact in the spec
    dv = tlc.run("Scenario", dict(consts('{"m1"}', '{"a"}', kv='{0,3}', tabs='{""}', rss='{""}', dev='{"D23_step_setting_sticks"}'), L='99',
                                  StepOnlyListed='FALSE'), invariants=["Exact"], view="View", spec="Spec", timeout=3000)
    if dv.violation != "Exact":
        raise common.Machinery("deviation D23 does not violate Exact in the spec")
    # channel 1: dict registration (+ base values) and later settings through REST /run, session, set_property_value; DSL model
    h1, _ = gen.histories("Scenario", consts('{"m1","m2"}', '{"a","b"}', kv='{0,3,5}', tabs='{"","B","C","D"}', rss='{"","r1","r2","r3"}'),
                          12 if quick else 20, simulate=25 if quick else 300, seed=common.seed() + 21, cache=False)
    # every combination of (own constant, own points, own runspecs, base constant, base points) at registration, exhaustively
    h2, _ = gen.histories("Scenario", consts('{"m1"}', '{"a"}', kv='{0,3,5}', tabs='{"","B","C"}', rss='{"","r1"}',
                                              ops='{"RegMgr","Register","Run"}'), 3)
    # channel 2: scenario files spread over two files, XMILE-sourced model (constants and points)
    h3, _ = gen.histories("Scenario", consts('{"m1","m2"}', '{"a","b"}', kv='{0,3,5}', tabs='{"","B","C"}', rss='{""}'),
                          10 if quick else 16, simulate=14 if quick else 150, seed=common.seed() + 22, cache=False,
                          defs=PHASE, extra_cfg={"action_constraints": ["MC_Phase"]})
    # every registration combination of two scenarios under a manager with base constant AND base points (the two base values
    # live in different files): which scenario inherits what must not depend on the order in which the files are read
    h4, _ = gen.histories("Scenario", consts('{"m1"}', '{"a","b"}', kv='{0,5}', tabs='{"","C"}', rss='{""}', ops='{"RegMgr","Register"}'), 3)
    h4 = [h for h in h4 if [x["op"] for x in h] == ["RegMgr", "Register", "Register"]]
    import random as _r
    rng = _r.Random(common.seed())
    h4b = [h for h in h4 if h[0]["bk"] > 0 and h[0]["bt"] != ""]
    # two scenarios of one manager in ONE file, exactly one of them with its own points, no base points: the sibling keeps the model's
    h4c = [h for h in h4 if h[0]["bt"] == "" and sorted(x["tab"] for x in h[1:]) == ["", "C"]]
    h4 = h4b if not quick else rng.sample(h4b, min(14, len(h4b)))
    h4c = h4c if not quick else rng.sample(h4c, min(8, len(h4c)))
    h3 = [(h, "split") for h in h4] + [(h, "single") for h in h4c] + [(h, ("split", "single")[i % 2]) for i, h in enumerate(h3)]
    R.cov["dict_channel_histories"], R.cov["registration_combinations"], R.cov["file_channel_histories"] = len(h1), len(h2), len(h3)
    ops = {}
    for hist in h1 + h2:
        bad = scn_replay.replay(hist)
        R.add("traces_validated_against_impl")
        for h in hist:
            ops[h["op"]] = ops.get(h["op"], 0) + 1
        if bad:
            bad["channel"] = "dict registration / REST / session"
            R.violation(bad["clause"], bad)
            if len(R.violations) >= 20:
                break
    # a first batch of file histories runs one per fresh process (process-wide state in bptk can mask file-reading faults)
    import json, os, subprocess, sys, tempfile
    from concurrent.futures import ThreadPoolExecutor
    nfresh = len(h4) + len(h4c) + (4 if quick else 40)
    def fresh_proc(item):
        hist, layout = item
        fd, path = tempfile.mkstemp(suffix=".json"); os.close(fd)
        try:
            with open(path, "w") as f:
                json.dump([hist], f)
            env = dict(os.environ, PYTHONHASHSEED="0")
            p = subprocess.run([sys.executable, "-W", "ignore", os.path.join(common.VERIF, "harness", "scn_file_worker.py"), path, layout],
                               capture_output=True, text=True, timeout=300, env=env, cwd=tempfile.gettempdir())
            for line in p.stdout.splitlines():
                if line.startswith("RESULT "):
                    return json.loads(line[7:])[0]
            raise common.Machinery("file worker failed: %s" % (p.stdout[-300:] + p.stderr[-600:]))
        finally:
            os.unlink(path)
    with ThreadPoolExecutor(max_workers=8) as ex:
        for bad in ex.map(fresh_proc, h3[:nfresh]):
            R.add("traces_validated_against_impl")
            R.add("file_histories_in_fresh_processes")
            if bad:
                R.violation(bad["clause"], bad)
    for hist, layout in h3[nfresh:]:
        if len(R.violations) >= 20:
            break
        bad = scn_replay.replay_files(hist, layout)
        R.add("traces_validated_against_impl")
        if bad:
            R.violation(bad["clause"], bad)
    R.cov["ops_replayed"] = ops
    R.sample([{a: b for a, b in h.items() if a not in ("all", "base")} for h in h1[0]])
    # known finding KF-C07-1: canonical history, reported as known only for exactly this shape
    kf = [e for e in R.findings.open_for("C07") if e["id"] == "KF-C07-1"]
    if kf:
        hk, _ = gen.histories("Scenario", dict(consts('{"m1"}', '{"a"}', kv='{0,3}', tabs='{""}', rss='{""}', dev='{"D23_step_setting_sticks"}',
                                                      ops='{"RegMgr","Register","Begin","Step","End","Run"}'), StepOnlyListed='FALSE'), 6)
        canon = [h for h in hk if [x["op"] for x in h] == ["RegMgr", "Register", "Begin", "Step", "End", "Run"]
                 and h[0]["bk"] == 0 and h[1]["k"] == 0 and h[2]["k"] == 0 and h[3]["k"] == 3]
        n_known = 0
        for hist in canon[:4]:
            # faithful prediction in the history (Dev = D23): the final Run reports the step's constant
            bad = scn_replay.replay(hist)
            if bad is None:
                n_known += 1
        if n_known:
            R.known_finding("KF-C07-1", kf[0]["what"][:160], n_known)
    R.assumptions += ["delivery channels: dict registration with base values, REST /run settings, begin_session settings, run_step settings, set_property_value, JSON scenario files spread over two files with an XMILE source",
                      "run specs only for DSL models (as the property says)"]
    return R.finish()
