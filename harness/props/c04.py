"""C04 - transpiled XMILE stock/flow dynamics are Euler-exact for any dt and match the DSL."""
import math, os, shutil, tempfile
from fractions import Fraction
from .. import common, sd_gen, sd_dsl, xmile_gen as X
from ..sd_gen import fr

ELEMENTS = ["c1", "fin", "bf", "fout", "fo2", "s1", "s2", "s3", "s4", "lkt", "lks", "lk2", "lkx", "lkd", "lkxs"]
DSL_ELEMENTS = ["c1", "fin", "bf", "fout", "fo2", "s1", "s2", "s3", "s4", "lkt", "lks", "lk2"]      # the DSL has the continuous lookup only


def num(v):
    f = fr(v)
    return str(f.numerator) if f.denominator == 1 else repr(float(f))


def dt_xml(dt, spelling):
    f = fr(dt)
    if spelling == "reciprocal" and f.numerator == 1:
        return '<dt reciprocal="true">%d</dt>' % f.denominator
    return "<dt>%s</dt>" % (str(f.numerator) if f.denominator == 1 else repr(float(f)))


def stock(name, init, inflows, outflows):
    s = '\t\t\t<stock name="%s">\n\t\t\t\t<eqn>%s</eqn>\n' % (name, init)
    s += "".join("\t\t\t\t<inflow>%s</inflow>\n" % f for f in inflows)
    s += "".join("\t\t\t\t<outflow>%s</outflow>\n" % f for f in outflows)
    return s + "\t\t\t</stock>\n"


def flow(name, eqn, non_negative):
    from xml.sax.saxutils import escape
    return '\t\t\t<flow name="%s">\n\t\t\t\t<eqn>%s</eqn>\n%s\t\t\t</flow>\n' % (name, escape(eqn), "\t\t\t\t<non_negative/>\n" if non_negative else "")


def gf_aux(name, eqn, points, explicit_x, kind=None):
    xs = [fr(x) for x, _ in points]
    ys = ",".join(num(y) for _, y in points)
    even = all(xs[k + 1] - xs[k] == xs[1] - xs[0] for k in range(len(xs) - 1))
    if explicit_x or not even:
        scale = "<xpts>%s</xpts>" % ",".join(num(x) for x, _ in points)
    else:
        scale = '<xscale min="%s" max="%s"/>' % (num(points[0][0]), num(points[-1][0]))
    return '\t\t\t<aux name="%s">\n\t\t\t\t<eqn>%s</eqn>\n\t\t\t\t<gf%s>\n\t\t\t\t\t%s\n\t\t\t\t\t<ypts>%s</ypts>\n\t\t\t\t</gf>\n\t\t\t</aux>\n' % (
        name, eqn, "" if kind is None else ' type="%s"' % kind, scale, ys)


def document(P, rs, spelling, variant):
    start, stop = fr(rs["start"]), fr(rs["start"]) + rs["n"] * fr(rs["dt"])
    f2 = lambda x: str(x.numerator) if x.denominator == 1 else repr(float(x))
    v = [X.aux("a", num(P["a"])), X.aux("b", num(P["b"])), X.aux("qf", num(P["q"])), X.aux("g", num(P["g"])),
         X.aux("c1", "a*TIME-b"),
         flow("fin", "c1", True), flow("bf", "c1", False), flow("fout", "qf*s1", True), flow("fo2", "g", True),
         flow("f3", ["MAX(c1, g)", "IF c1 > g THEN c1 ELSE g"][variant % 2], False),
         flow("f4", ["lkt + c1^2", "c1*c1 + lkt"][variant % 2], False),
         stock("s1", num(P["s0"]), ["fin"], ["fout", "fo2"]), stock("s2", "0", ["bf", "fout"], []),
         stock("s3", "0", ["f3"], []), stock("s4", "0", ["f4"], []),
         gf_aux("lkt", "TIME", P["pts"], variant % 2 == 0, [None, "continuous"][variant % 2]), gf_aux("lks", "s1", P["pts"], variant % 2 == 1),
         gf_aux("lk2", "TIME", [[x, [y[0] + y[1], y[1]]] for x, y in P["pts"]], variant % 2 == 1),
         gf_aux("lkx", "TIME", P["pts"], variant % 2 == 1, "extrapolate"), gf_aux("lkd", "TIME", P["pts"], variant % 2 == 0, "discrete"),
         gf_aux("lkxs", "s1", P["pts"], variant % 2 == 0, "extrapolate")]
    return X.document("c04", v, start=f2(start), stop=f2(stop), dt=dt_xml(rs["dt"], spelling))


DISPLAY = {"bf": "bf%", "fo2": "fo2($)", "fin": "fin&In"}     # snake_to_camel of "fin_&_in"


def display_names(doc):
    """the same document with the display names a modelling tool allows for flows: 'bf %', 'fo2 ($)', 'fin & in' (references to
    them are quoted, blanks written as underscores); the transpiler strips blanks and keeps the other characters"""
    for name, shown, ref in (("bf", "bf %", '"bf_%"'), ("fo2", "fo2 ($)", '"fo2_($)"'), ("fin", "fin &amp; in", '"fin_&amp;_in"')):
        doc = doc.replace('<flow name="%s">' % name, '<flow name="%s">' % shown)
        doc = doc.replace('<inflow>%s</inflow>' % name, '<inflow>%s</inflow>' % ref).replace('<outflow>%s</outflow>' % name, '<outflow>%s</outflow>' % ref)
    return doc


def prime_factors(n):
    out, p = set(), 2
    while n > 1:
        while n % p == 0:
            out.add(p); n //= p
        p += 1
    return out


def times(rs):
    return [float(fr(rs["start"]) + k * fr(rs["dt"])) for k in range(rs["n"] + 1)]


def compare(R, case, get, channel, stats, extra):
    ts = times(case["rs"])
    for k, row in enumerate(case["traj"]):
        for el in ELEMENTS:
            exp = fr(row[el])
            if exp is None:
                stats["undef"] = stats.get("undef", 0) + 1
                continue
            try:
                got = get(el, k, ts[k])
            except Exception as e:
                got = "%s: %s" % (type(e).__name__, str(e)[:80])
            stats["compared"] = stats.get("compared", 0) + 1
            if not isinstance(got, (int, float)) or not math.isclose(got, float(exp), rel_tol=1e-9, abs_tol=1e-9):
                R.violation("transpiled element %s differs from the explicit-Euler value" % el,
                            dict(extra, element=el, t=ts[k], grid_index=k, expected=float(exp), observed=got, channel=channel,
                                 runspec={x: str(fr(v)) if isinstance(v, list) else v for x, v in case["rs"].items()}))
                return False
    return True


def run(tier, replay_file=None):
    R = common.Run("C04", tier, "translation_validation")
    quick = tier == "quick"
    BPTK_Py = common.use_repo()
    trajs, st = sd_gen.trajectories(sd_gen.PARAMS, sd_gen.QUICK_RS + ([] if quick else sd_gen.MORE_RS))
    trajs2, st2 = sd_gen.trajectories(sd_gen.PARAMS[:3] if quick else sd_gen.PARAMS, sd_gen.RECIPROCAL_RS)
    trajs = trajs + trajs2
    R.cov["states"], R.cov["transitions"] = st["distinct"] + st2["distinct"], st["generated"] + st2["generated"]
    R.cov["trajectories_reciprocal_dt"] = len(trajs2)
    from BPTK_Py.sdsimulation import SdSimulation
    workdir = tempfile.mkdtemp(prefix="vx4_")
    stats, docs = {}, 0
    try:
        for n, case in enumerate(trajs):
            terminating = all(p in (2, 5) for p in prime_factors(fr(case["rs"]["dt"]).denominator))
            for spelling in ((("decimal", "reciprocal") if terminating else ("reciprocal",)) if fr(case["rs"]["dt"]).numerator == 1 and fr(case["rs"]["dt"]) != 1 else ("decimal",)):
                extra = {"dt_spelling": spelling, "variant": n % 2}
                try:
                    sim, dest = X.compile_doc(document(case["P"], case["rs"], spelling, n), workdir)
                except Exception as e:
                    R.violation("the generated XMILE model does not compile", dict(extra, error="%s: %s" % (type(e).__name__, str(e)[:200])))
                    continue
                docs += 1
                ts = times(case["rs"])
                if abs(sim.dt - float(fr(case["rs"]["dt"]))) > 1e-12 or abs(sim.starttime - ts[0]) > 1e-12 or abs(sim.stoptime - ts[-1]) > 1e-12:
                    R.violation("sim specs of the transpiled model", dict(extra, expected=(ts[0], ts[-1], float(fr(case["rs"]["dt"]))), observed=(sim.starttime, sim.stoptime, sim.dt)))
                    continue
                ok = compare(R, case, lambda el, k, t: float(sim.equation(el, t)), "simulation_model().equation", stats, extra)
                R.add("traces_validated_against_impl")
                if ok:
                    # the whole run as the simulation engine performs it (SdSimulation.start on a fresh instance): one row per
                    # grid point from start to stop, same values
                    sim3, _ = X.compile_doc(document(case["P"], case["rs"], spelling, n), workdir)
                    df = SdSimulation(model=sim3).start(output=["frame"], equations=list(ELEMENTS))
                    idx = [float(t) for t in df.index]
                    if len(idx) != len(ts) or any(abs(a - b) > 1e-9 for a, b in zip(idx, ts)):
                        R.violation("the run of the transpiled model does not cover the time grid from start to stop",
                                    dict(extra, expected=ts[:4] + ["...", ts[-1]], n_expected=len(ts), observed=idx[:4] + ["...", idx[-1] if idx else None], n_observed=len(idx),
                                         runspec={x: str(fr(v)) if isinstance(v, list) else v for x, v in case["rs"].items()}))
                        ok = False
                    else:
                        ok = compare(R, case, lambda el, k, t: float(df[el].iloc[k]), "SdSimulation.start(frame)", stats, extra)
                if ok:
                    # cold, top-down: the first evaluation on a fresh instance is at the stop time (every earlier time is reached by
                    # the stock's own t - dt recursion)
                    sim4, _ = X.compile_doc(document(case["P"], case["rs"], spelling, n), workdir)
                    last = len(ts) - 1
                    for el in ("s1", "s2", "s3", "s4"):
                        exp = fr(case["traj"][last][el])
                        if exp is None:
                            continue
                        got = float(sim4.equation(el, ts[last]))
                        stats["compared"] = stats.get("compared", 0) + 1
                        if not math.isclose(got, float(exp), rel_tol=1e-9, abs_tol=1e-9):
                            R.violation("transpiled element %s differs from the explicit-Euler value" % el,
                                        dict(extra, element=el, t=ts[last], expected=float(exp), observed=got, channel="cold evaluation at the stop time",
                                             runspec={x: str(fr(v)) if isinstance(v, list) else v for x, v in case["rs"].items()}))
                            ok = False
                            break
                if ok and n % 3 == 1:
                    # flows with display names outside [A-Za-z0-9_]: same dynamics
                    simD, _ = X.compile_doc(display_names(document(case["P"], case["rs"], spelling, n)), workdir)
                    ok = compare(R, case, lambda el, k, t: float(simD.equation(DISPLAY.get(el, el), t)), "flows with display names (%, $, parentheses, &)", stats, extra)
                    R.add("documents_with_display_names")
                if ok and n % 3 == 0:
                    # a scenario's run specs reach the transpiled model through SdSimulation.change_runspecs: the run must be reported
                    # on the new grid with the new dt
                    nxt = next((c for c in trajs[n + 1:] + trajs[:n] if c["P"] == case["P"] and c["rs"] != case["rs"]), None)
                    if nxt is not None:
                        sim5, _ = X.compile_doc(document(case["P"], case["rs"], spelling, n), workdir)
                        sds = SdSimulation(model=sim5)
                        ts2 = times(nxt["rs"])
                        sds.change_runspecs(ts2[0], ts2[-1], float(fr(nxt["rs"]["dt"])))
                        df2 = sds.start(output=["frame"], equations=list(ELEMENTS))
                        idx = [float(t) for t in df2.index]
                        if len(idx) != len(ts2) or any(abs(a - b) > 1e-9 for a, b in zip(idx, ts2)):
                            R.violation("the run of the transpiled model does not cover the time grid from start to stop",
                                        dict(extra, channel="SdSimulation.start after change_runspecs", expected=ts2[:3] + ["...", ts2[-1]], n_expected=len(ts2),
                                             observed=idx[:3] + ["...", idx[-1] if idx else None], n_observed=len(idx),
                                             runspec={x: str(fr(v)) if isinstance(v, list) else v for x, v in nxt["rs"].items()}))
                        else:
                            compare(R, nxt, lambda el, k, t: float(df2[el].iloc[k]), "SdSimulation.start after change_runspecs", stats, extra)
                        R.add("runs_after_change_runspecs")
                if ok and spelling == "decimal":
                    # through bptk with a 'source' scenario manager is covered by C07; here: the same structure in the DSL
                    m, *_ = sd_dsl.build(case["P"], case["rs"], "d%d" % n, spelling=n)
                    sim2, _ = X.compile_doc(document(case["P"], case["rs"], spelling, n), workdir)
                    for k, t in enumerate(ts):
                        for el in DSL_ELEMENTS:
                            if fr(case["traj"][k][el]) is None:
                                continue
                            a, b = float(sim2.equation(el, t)), float(m.evaluate_equation(el, t))
                            stats["dsl_vs_xmile"] = stats.get("dsl_vs_xmile", 0) + 1
                            if not math.isclose(a, b, rel_tol=1e-9, abs_tol=1e-9):
                                R.violation("DSL and transpiled XMILE disagree on %s" % el, dict(extra, element=el, t=t, xmile=a, dsl=b))
                                break
                        else:
                            continue
                        break
            if len(R.violations) >= 20:
                break
    finally:
        shutil.rmtree(workdir, ignore_errors=True)
    R.cov["programs"] = docs
    R.cov["disagreements_checked"] = stats.get("compared", 0) + stats.get("dsl_vs_xmile", 0)
    R.cov["values_compared"], R.cov["dsl_vs_xmile_compared"] = stats.get("compared", 0), stats.get("dsl_vs_xmile", 0)
    R.cov["skipped_undefined_reference"] = stats.get("undef", 0)
    if not R.violations and stats.get("compared", 0) < 3000:
        raise common.Machinery("too few values compared: vacuous")
    R.sample({"runspec": trajs[0]["rs"], "row": trajs[0]["traj"][1]})
    R.assumptions += ["structure: stocks with 1-2 inflows and 0-2 outflows, non-negative and bidirectional flows, auxiliaries, graphical functions over TIME and over a stock with xscale and with explicit uneven xpts; dt decimal and reciprocal",
                      "XMILE built-ins DELAY/SMTH/TREND/STEP/PULSE are not part of this property"]
    return R.finish()
