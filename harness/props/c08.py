"""C08 - memoised results are never stale or ambiguous."""
import itertools, json, math, random, threading
from .. import tlc, gen, common, sched

OPS1 = '{"ScnRun","ScnRerun","SetConst","SetInit","SetInitElem","SetFlow","SetConv","SetStockEq","SetW","Eval","EvalElem","Plot","ResetCache","RunTwice"}'


def consts(dev='{}', threads='("t1" :> "x" @@ "t2" :> "z")'):
    return dict(Times='0..3', CVals='{1,3,4}', IVals='{0,5,7}', Threads=threads, Dev=dev, Ops=OPS1)


def build(defs, name="memo"):
    common.use_repo()
    from BPTK_Py import Model
    m = Model(starttime=0.0, stoptime=3.0, dt=1.0, name=name)
    c = m.constant("c"); f = m.flow("f"); s = m.stock("s"); y = m.converter("y"); w = m.constant("w")
    apply_defs(m, defs, all_=True)
    return m


def apply_defs(m, defs, all_=False, only=None):
    c, f, s, y = m.constants["c"], m.flows["f"], m.stocks["s"], m.converters["y"]
    if all_ or only == "c": c.equation = float(defs["c"])
    if all_ or only == "f": f.equation = c if defs["fv"] == 1 else 2.0 * c
    if all_ or only == "s":
        s.initial_value = c if defs.get("ive", 0) == 1 else float(defs["iv"])       # a number, or the element c itself
    if all_ or only == "seq": s.equation = f if defs.get("sv", 1) == 1 else f + f
    w = m.constants["w"]
    if (all_ or only == "w") and defs.get("w", 0) > 0: w.equation = float(defs["w"])      # w has no equation until it is first set
    if all_ or only == "y": y.equation = s * 2.0 + w if defs["yv"] == 1 else s + 10.0 + w


def element_of(m, e):
    return {"c": m.constants, "w": m.constants, "f": m.flows, "s": m.stocks, "y": m.converters}[e][e]


def noisy_runs(b, m, defs):
    """a scenario whose constant c is a stochastic definition, run with different equation lists without a cache reset:
    the value reported for (c, t) is the value f and s consumed, and repeating the run returns identical results"""
    counter = itertools.count(1)
    b.register_scenarios({"noisy": {"constants": {"c": (lambda t: 100.0 + next(counter))}}}, "smm")
    runs = []
    for eqs in (["f"], ["f", "c", "s"], ["c"], ["s", "c"]):
        df = b.run_scenarios(scenario_managers=["smm"], scenarios=["noisy"], equations=eqs, return_format="df")
        runs.append({e: [float(v) for v in df[e if e in df.columns else "smm_noisy_" + e]] for e in eqs})
    k = 1.0 if defs["fv"] == 1 else 2.0
    r2 = runs[1]
    if runs[0]["f"] != r2["f"]:
        return ("f changed between two runs of the same scenario", runs[0]["f"], r2["f"])
    if any(abs(fv - k * cv) > 1e-9 for fv, cv in zip(r2["f"], r2["c"])):
        return ("the value reported for the stochastic constant c is not the value f consumed", [fv / k for fv in r2["f"]], r2["c"])
    acc = r2["s"][0] if defs.get("ive", 0) == 1 else float(defs["iv"])
    for i in range(1, len(r2["s"])):
        acc += r2["f"][i - 1] * defs.get("sv", 1)
        if abs(r2["s"][i] - acc) > 1e-9:
            return ("the stock did not consume the reported values of f", acc, r2["s"][i])
    if runs[2]["c"] != r2["c"] or runs[3]["c"] != r2["c"] or runs[3]["s"] != r2["s"]:
        return ("repeating the run changed the stochastic constant", r2["c"], [runs[2]["c"], runs[3]["c"]])
    return None


def reference(defs, e, t):
    """closed form of the reference model"""
    c = float(defs["c"]); fl = c if defs["fv"] == 1 else 2.0 * c
    s = (c if defs.get("ive", 0) == 1 else float(defs["iv"])) + fl * defs.get("sv", 1) * t
    w = float(defs.get("w", 0))
    return {"c": c, "f": fl, "s": s, "w": w, "y": s * 2.0 + w if defs["yv"] == 1 else s + 10.0 + w}[e]


def run_scenario(b0, defs, n, what, sim=None):
    """run the scenario 'ovr' of b0 (or start the given SdSimulation) and compare c, f, s (and y once w is defined) with the closed form"""
    eqs = ["c", "f", "s"] + (["y"] if defs.get("w", 0) > 0 else [])
    if sim is not None:
        df = sim.start(output=["frame"], equations=eqs)
    else:
        df = b0.run_scenarios(scenario_managers=["smo"], scenarios=["ovr"], equations=eqs, return_format="df")
    for e in eqs:
        got = [float(v) for v in df[e if e in df.columns else "smo_ovr_" + e]]
        want = [reference(defs, e, t) for t in range(4)]
        if len(got) != 4 or any(not math.isclose(a, w, abs_tol=1e-9) for a, w in zip(got, want)):
            return {"step": n, "clause": "%s: the scenario's run reports %s differently from a freshly built model with the final definitions" % (what, e),
                    "expected": want, "observed": got, "definitions": defs}
    return None


def replay1(hist):
    BPTK_Py = common.use_repo()
    # the model under edit is the model of a scenario of a bptk object (so that scenario overrides can be part of the history)
    b0 = BPTK_Py.bptk()
    try:
        b0.register_model(build({"c": 1, "iv": 0, "fv": 1, "yv": 1, "w": 0, "sv": 1}), scenario_manager="smo", scenario={"ovr": {}})
        return _replay1(hist, BPTK_Py, b0)
    finally:
        b0.destroy()


def _replay1(hist, BPTK_Py, b0):
    scn = b0.get_scenario("smo", "ovr")
    m = scn.model
    # the scenario's model is a copy made from the function strings of the registered one: its elements do not carry their equation
    # objects, so the definitions are assigned once more through the modelling API before the history starts
    apply_defs(m, {"c": 1, "iv": 0, "fv": 1, "yv": 1, "w": 0, "sv": 1}, all_=True)
    for n, h in enumerate(hist):
        op = h["op"]
        try:
            if op == "SetConst": apply_defs(m, h["defs"], only="c")
            elif op in ("SetInit", "SetInitElem"): apply_defs(m, h["defs"], only="s")
            elif op == "SetFlow": apply_defs(m, h["defs"], only="f")
            elif op == "SetConv": apply_defs(m, h["defs"], only="y")
            elif op == "SetStockEq": apply_defs(m, h["defs"], only="seq")
            elif op == "SetW": apply_defs(m, h["defs"], only="w")
            elif op == "ResetCache": m.reset_cache()
            elif op in ("ScnRun", "ScnRerun"):
                sim = None
                if op == "ScnRun":
                    scn.constants["c"] = float(h["v"])
                    if h["how"] == "scenario":
                        b0.reset_scenario_cache(scenario_manager="smo", scenario="ovr")
                    elif h["how"] == "model":
                        m.reset_cache()
                    else:
                        from BPTK_Py.sdsimulation import SdSimulation
                        sim = SdSimulation(model=m, name="direct")
                        sim.change_equation(name="c", value=float(h["v"]))
                        m.reset_cache()
                bad = run_scenario(b0, h["defs"], n, "override set to %s, cache reset through the %s" % (h["v"], h["how"]) if op == "ScnRun" else "run again", sim)
                if bad:
                    bad["history"] = [{a: b for a, b in x.items() if a != "defs"} for x in hist[:n + 1]]
                    return bad
            elif op == "Plot":
                el = element_of(m, h["e"])
                df = el.plot(return_df=True)
                col = list(df[h["e"]]) if h["e"] in df.columns else list(df[df.columns[0]])
                fm = build(h["defs"], "fresh")
                want = [fm.evaluate_equation(h["e"], float(t)) for t in range(4)]
                if len(col) != 4 or any(not math.isclose(float(a), b, abs_tol=1e-9) for a, b in zip(col, want)):
                    return {"step": n, "clause": "%s.plot(return_df=True) differs from a freshly built model with the final definitions" % h["e"],
                            "expected": want, "observed": [float(a) for a in col], "definitions": h["defs"],
                            "history": [{a: b for a, b in x.items() if a != "defs"} for x in hist[:n + 1]]}
            elif op == "Eval":
                got = m.evaluate_equation(h["e"], float(h["t"])) if h.get("route", "api") == "api" else element_of(m, h["e"])(float(h["t"]))
                fresh = build(h["defs"], "fresh").evaluate_equation(h["e"], float(h["t"]))
                ref = reference(h["defs"], h["e"], h["t"])
                if not math.isclose(fresh, ref, abs_tol=1e-9):
                    raise common.Machinery("fresh model disagrees with the closed form: %s vs %s" % (fresh, ref))
                if not math.isclose(got, fresh, abs_tol=1e-9):
                    return {"step": n, "clause": "%s(%s) differs from a freshly built model with the final definitions" % (h["e"], h["t"]),
                            "expected": fresh, "observed": got, "definitions": h["defs"],
                            "history": [{a: b for a, b in x.items() if a != "defs"} for x in hist[:n + 1]]}
            elif op == "RunTwice":
                b = BPTK_Py.bptk()
                try:
                    b.register_model(m, scenario_manager="smm", scenario={"base": {}})
                    runs = []
                    for eqs in (["s", "y", "f", "c"], ["y"], ["c", "f", "s", "y"]):
                        df = b.run_scenarios(scenario_managers=["smm"], scenarios=["base"], equations=eqs, return_format="df")
                        runs.append({e: [float(v) for v in df[e if e in df.columns else "smm_base_" + e]] for e in eqs})
                    layer = dict(h["defs"], c=h["defs"].get("cd", h["defs"]["c"]))      # a copy of the model starts from its own definitions
                    for e in ("s", "y", "f", "c"):
                        if e == "y" and h["defs"].get("w", 0) == 0:
                            continue
                        want = [reference(layer, e, t) for t in range(4)]
                        for r in runs:
                            if e in r and any(not math.isclose(a, w, abs_tol=1e-9) for a, w in zip(r[e], want)):
                                return {"step": n, "clause": "repeated run / different equation list reports different %s" % e,
                                        "expected": want, "observed": r[e], "definitions": h["defs"]}
                    bad = noisy_runs(b, m, h["defs"])
                    if bad:
                        return {"step": n, "clause": "stochastic scenario constant: " + bad[0], "expected": bad[1], "observed": bad[2], "definitions": h["defs"]}
                finally:
                    b.destroy()
        except common.Machinery:
            raise
        except Exception as ex:
            return {"step": n, "clause": "exception in %s" % op, "expected": "no exception", "observed": "%s: %s" % (type(ex).__name__, str(ex)[:150])}
    return None


MEMO_ANCHORS = [("BPTK_Py.modeling.model", "ifnormalized_arginmymemo", "C"),
                ("BPTK_Py.modeling.model", "self.equations[equation](normalized_arg)", "P"),
                ("BPTK_Py.modeling.model", r"re:mymemo\[\w+\]\s*=\s*result", "S"),
                ("BPTK_Py.modeling.model", r"re:mymemo\.setdefault\(", "S")]


def run_schedule(kinds, schedule, fine=False):
    """kinds: thread id -> "x" | "z"; forces the schedule on Model.memoize of the shared stochastic element x.
    fine: every source line executed inside memoize('x', ..) is a scheduling point (not only Check / Compute / Store)"""
    common.use_repo()
    from BPTK_Py import Model
    m = Model(starttime=0.0, stoptime=1.0, dt=1.0, name="thr")
    counter = itertools.count(1)
    draws = []
    def draw(model, t):
        v = float(next(counter)); draws.append(v); return v
    fn = m.function("draw", draw)
    x = m.converter("x"); x.equation = fn()
    z = m.converter("z"); z.equation = x * 1.0
    ctl = sched.Controller(lambda: (False, 0), anchors=MEMO_ANCHORS, required={"C", "P", "S"},
                           park_filter=lambda frame: frame.f_locals.get("equation") == "x",
                           internal=[("BPTK_Py.modeling.model", "memoize")] if fine else [])
    for tid, k in sorted(kinds.items()):
        ctl.spawn(tid, (lambda k=k: m.evaluate_equation(k, 0.0)))
    ctl.run(schedule, fine)
    res = {tid: (w.result, w.error) for tid, w in ctl.workers.items()}
    cell = m.memo["x"].get(0.0)
    return res, cell, draws, ctl.events


def conservation(dt, steps):
    """sequential consumers of one stochastic flow on a decimal grid: a' = -r, b' = +r; every consumer must see the same draw"""
    common.use_repo()
    from BPTK_Py import Model
    m = Model(starttime=0.0, stoptime=dt * steps, dt=dt, name="cons")
    counter = itertools.count(1)
    fn = m.function("draw", lambda model, t: float(next(counter)))
    r = m.biflow("r"); r.equation = fn()
    a = m.stock("a"); a.initial_value = 100.0; a.equation = -r
    b = m.stock("b"); b.initial_value = 0.0; b.equation = r
    from decimal import Decimal
    grid = [float(Decimal(str(dt)) * k) for k in range(steps + 1)]
    for k, t in enumerate(grid):
        va, vb = a(t), b(t)
        if abs(va + vb - 100.0) > 1e-9:
            return {"dt": dt, "t": t, "a": va, "b": vb, "what": "a + b is not conserved: the two stocks consumed different draws of r"}
    for k in range(steps):
        rv = r(grid[k])
        want = (b(grid[k + 1]) - b(grid[k])) / dt
        if abs(rv - want) > 1e-6:
            return {"dt": dt, "t": grid[k], "reported_r": rv, "consumed_by_b": want, "what": "the value reported for r differs from the value the stocks consumed"}
    return None


def run(tier, replay_file=None):
    R = common.Run("C08", tier, "model_checking")
    quick = tier == "quick"
    rng = random.Random(common.seed())
    # part 1: edits and evaluations
    small = dict(consts(), L='0', Times='0..1' if quick else '0..2', CVals='{1,3}', IVals='{0,5}')
    mc = tlc.run("Memo", small, init="Init1", next="Next1", invariants=["NoStale"], view="View1", constraints=["VerBound"], timeout=3000)
    if mc.violation:
        R.violation("spec:" + mc.violation, {"trace": mc.trace[:3000]})
    R.cov["states"], R.cov["transitions"] = mc.distinct, mc.generated
    dv = tlc.run("Memo", dict(small, Dev='{"D08a_initial_value_own_memo_only"}'), init="Init1", next="Next1", invariants=["NoStale"],
                 view="View1", constraints=["VerBound"], timeout=3000)
    if dv.violation != "NoStale":
        raise common.Machinery("deviation D08a does not violate NoStale in the spec")
    dv = tlc.run("Memo", dict(small, Dev='{"D08c_override_installed_over_memo"}', Ops='{"ScnRun","ScnRerun","SetConst","Eval"}'), init="Init1", next="Next1", invariants=["NoStale"],
                 view="View1", constraints=["VerBound"], timeout=3000)
    if dv.violation != "NoStale":
        raise common.Machinery("deviation D08c does not violate NoStale in the spec")
    hs, _ = gen.histories("Memo", consts(), 12 if quick else 18, simulate=60 if quick else 800, seed=common.seed() + 31, cache=False,
                          extra_cfg={"init": "Init1", "next": "Next1"})
    b1 = dict(consts()); b1["Ops"] = '{"SetConst","SetInit","SetInitElem","SetFlow","SetConv","SetStockEq","SetW","Eval"}'; b1["Times"] = '{2}'; b1["CVals"] = '{1,3}'; b1["IVals"] = '{0,5}'
    bfs, _ = gen.histories("Memo", b1, 3 if quick else 4, extra_cfg={"init": "Init1", "next": "Next1"})
    # the memo filled through one route only (plot / element call / api), then an edit of an input, then a read: every combination
    b2 = dict(b1); b2["Ops"] = '{"SetConst","SetInit","SetInitElem","SetFlow","SetStockEq","Eval","EvalElem","Plot"}'
    routes, _ = gen.histories("Memo", b2, 3, extra_cfg={"init": "Init1", "next": "Next1", "action_constraints": ["MC_Fill"]},
                              defs='MC_Fill == LET n == Len(hist) IN /\\ (n \\in {0, 2} => hist\'[n + 1].op \\in {"Eval", "Plot"}) /\\ (n = 1 => hist\'[2].op \\notin {"Eval", "Plot"})\n')
    # the scenario layer: an override set and run, then edits / evaluations, then the scenario run again with or without a reset
    b3 = dict(b1); b3["Ops"] = '{"ScnRun","ScnRerun","SetConst","SetFlow","Eval"}'
    scn, _ = gen.histories("Memo", b3, 4, extra_cfg={"init": "Init1", "next": "Next1", "action_constraints": ["MC_Scn"]},
                           defs='MC_Scn == LET n == Len(hist\') h == hist\'[n] IN /\\ (n = 1 => h.op = "ScnRun") /\\ (n = 2 => h.op \\in {"SetConst", "SetFlow", "ScnRun", "Eval"})\n'
                                '             /\\ (n = 3 => h.op \\in {"Eval", "ScnRun", "ScnRerun"}) /\\ (n = 4 => h.op \\in {"ScnRerun", "ScnRun", "Eval"})\n')
    R.cov["scenario_override_histories"] = len(scn)
    if quick:       # every history of three operations, and every fifth of four
        short = {json.dumps(h[:3], sort_keys=True): h[:3] for h in scn}
        scn = list(short.values()) + scn[::5]
    bfs = bfs + routes + scn
    R.cov["fill_edit_read_histories"] = len(routes)
    R.cov["bfs_histories"], R.cov["sim_histories"] = len(bfs), len(hs)
    evals = 0
    for hist in bfs + hs:
        bad = replay1(hist)
        R.add("traces_validated_against_impl")
        evals += sum(1 for h in hist if h["op"] == "Eval")
        if bad:
            R.violation(bad["clause"], bad)
            if len(R.violations) >= 15:
                break
    R.cov["evaluations_compared_with_fresh_model"] = evals
    # part 2: worker threads over the shared memo of a stochastic element, all interleavings at Check / Compute / Store
    nsched = 0
    for threads, kinds in (('("t1" :> "x" @@ "t2" :> "z")', {"t1": "x", "t2": "z"}), ('("t1" :> "z" @@ "t2" :> "z")', {"t1": "z", "t2": "z"}),
                           ('("t1" :> "x" @@ "t2" :> "z" @@ "t3" :> "z")', {"t1": "x", "t2": "z", "t3": "z"})):
        m2 = tlc.run("Memo", dict(consts(threads=threads), L='0'), init="Init2", next="Next2", invariants=["SingleValued", "Emit2"], workers=1, timeout=3000)
        if m2.violation:
            R.violation("spec:" + m2.violation, {"trace": m2.trace[:2000]})
        R.cov["states"] += m2.distinct
        R.cov["transitions"] += m2.generated
        scheds = sorted({tuple(o["sched"]) for o in m2.emitted})
        cap = 20 if quick else 400
        for sc in (scheds if len(scheds) <= cap else rng.sample(scheds, cap)):
            res, cell, draws, events = run_schedule(kinds, list(sc))
            nsched += 1
            R.add("traces_validated_against_impl")
            vals = {tid: r[0] for tid, r in res.items()}
            errs = {tid: str(r[1]) for tid, r in res.items() if r[1] is not None}
            if errs or len(set(vals.values())) != 1 or cell not in vals.values():
                R.violation("one (element, time) has several values within a run",
                            {"threads": kinds, "schedule": list(sc), "reported_per_thread": vals, "memo_cell": cell, "draws": draws, "errors": errs,
                             "events": events})
                if len(R.violations) >= 15:
                    break
    # line-level preemption inside memoize (also the lines before Check: looking up / creating the element's memo dictionary):
    # thread 1 runs i lines, thread 2 runs j lines, then they alternate line by line
    rngf = range(0, 5) if quick else range(0, 9)
    for kinds in ({"t1": "x", "t2": "z"}, {"t1": "z", "t2": "z"}):
        for i in rngf:
            for j in rngf:
                sc = ["t1"] * i + ["t2"] * j
                res, cell, draws, events = run_schedule(kinds, sc, fine=True)
                nsched += 1
                R.add("traces_validated_against_impl"); R.add("line_level_schedules")
                vals = {tid: r[0] for tid, r in res.items()}
                errs = {tid: str(r[1]) for tid, r in res.items() if r[1] is not None}
                if errs or len(set(vals.values())) != 1 or cell not in vals.values():
                    R.violation("one (element, time) has several values within a run",
                                {"threads": kinds, "schedule": sc, "every_line_of_memoize_is_a_step": True, "reported_per_thread": vals, "memo_cell": cell,
                                 "draws": draws, "errors": errs})
                    break
            if len(R.violations) >= 15:
                break
    # the sequential schedule on decimal grids (consumers reach the stochastic element through t - dt chains)
    for dt, steps in ((0.1, 12), (0.2, 8), (0.25, 6), (0.05, 10), (1.0, 4)):
        bad = conservation(dt, steps)
        nsched += 1
        R.add("traces_validated_against_impl")
        if bad:
            R.violation("one (element, time) has several values within a run (sequential consumers)", bad)
    dv2 = tlc.run("Memo", dict(consts('{"D08b_store_overwrites"}'), L='0'), init="Init2", next="Next2", invariants=["SingleValued"], view="View2", timeout=3000)
    if dv2.violation != "SingleValued":
        raise common.Machinery("deviation D08b does not violate SingleValued in the spec")
    R.cov["schedules_forced"] = nsched
    if not R.violations and (evals < 150 or nsched < 30):
        raise common.Machinery("too few evaluations / schedules (vacuous)")
    R.sample([{a: b for a, b in h.items() if a != "defs"} for h in hs[0]])
    R.assumptions += ["edits through the modelling API: constant value, stock initial value, flow and converter equations; every evaluation compared with a freshly built model",
                      "threads are scheduled at the Check / Compute / Store lines of Model.memoize for the shared stochastic element (anchors found by text)"]
    return R.finish()
