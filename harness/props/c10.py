"""C10 - arrayed equations compute what the same numpy operation computes."""
import json, math
from fractions import Fraction
import numpy as np
from .. import tlc, common


def to_float(x):
    """nested JSON rationals -> nested floats"""
    if isinstance(x, list) and len(x) == 2 and all(isinstance(v, int) for v in x):
        return float(Fraction(x[0], x[1])) if x[1] != 0 else float("nan")
    return [to_float(v) for v in x]


def names(n, prefix):
    return ["%s%d" % (prefix, k + 1) for k in range(n)]


def make_operand(model, name, shape, values, kind, named, other_names=False, order="fwd", el=None, cls="constant"):
    """kind: "element" | "literal" (scalars only).  returns the Python operand.  order "rev": a named array declares its
    names in reverse order (every value stays with its name).  el: an existing element that is set up again"""
    m, n = shape
    rv = (lambda seq: list(reversed(list(seq)))) if order == "rev" else (lambda seq: list(seq))
    if (m, n) == (0, 0):
        if kind == "literal":
            return values
        c = model.constant(name); c.equation = values
        return c
    if el is None:
        el = getattr(model, cls)(name)
    p1, p2 = ("u", "w") if other_names else ("x", "y")
    if m == 0:
        if named:
            el.setup_named_vector(dict(rv(zip(names(n, p1), values))))
        else:
            el.setup_vector(n, list(values))
    else:
        if named:
            el.setup_named_matrix({r: dict(rv(zip(names(n, p2), row))) for r, row in rv(zip(names(m, p1), values))})
        else:
            el.setup_matrix([m, n], [list(r) for r in values])
    return el


def read_result(el, shape, named, t):
    m, n = shape
    if (m, n) == (0, 0):
        return el(t)
    if m == 0:
        keys = names(n, "x") if named else range(n)
        return [el[k](t) for k in keys]
    rk = names(m, "x") if named else range(m)
    ck = names(n, "y") if named else range(n)
    return [[el[r][c](t) for c in ck] for r in rk]


def res_shape(case):
    sa, sb = tuple(case["sa"]), tuple(case["sb"])
    if case["form"] in ("ew", "ew2", "dotmix"):
        return sb if sa == (0, 0) else sa
    if case["form"] in ("agg", "aggedit", "aggin"):
        return (0, 0)
    if sa[0] == 0 and sb[0] == 0: return (0, 0)
    if sa[0] > 0 and sb[0] == 0: return (0, sa[0])
    if sa[0] == 0 and sb[0] > 0: return (0, sb[1])
    return (sa[0], sb[1])


def close(a, b):
    if isinstance(a, list) != isinstance(b, list):
        return False
    if isinstance(a, list):
        return len(a) == len(b) and all(close(x, y) for x, y in zip(a, b))
    try:
        return math.isclose(float(a), float(b), rel_tol=1e-9, abs_tol=1e-9)
    except Exception:
        return False


def numpy_result(case, A, B):
    a, b = np.array(A, dtype=float), np.array(B, dtype=float)
    f, op = case["form"], case["op"]
    if f == "aggedit":
        a[(0,) * a.ndim] = 9.0
        f = "agg"
    if f == "dotmix":
        return {"sub": lambda: a - np.dot(b, a), "in": lambda: np.dot(a, b + b * a), "in1": lambda: np.dot(a, b + a)}[op]().tolist()
    if f == "ew2":
        g = {"+": lambda x, y: x + y, "-": lambda x, y: x - y, "*": lambda x, y: x * y}
        return (g[op](a, g[case["op2"]](b, a)) if case["pos"] == "R" else g[op](g[case["op2"]](a, b), a)).tolist()
    if f == "ew":
        return {"+": a + b, "-": a - b, "*": a * b, "/": a / b}[op].tolist()
    if f == "dot":
        return np.dot(a, b).tolist()
    flat = a.flatten()
    if f == "aggin":
        x = {"sum": flat.sum(), "prod": flat.prod(), "mean": flat.mean()}[case["agg"]]
        k = float(B)
        return float({"powbase": lambda: x ** 2, "divright": lambda: k / x, "modright": lambda: k % x, "subright": lambda: k - x, "mulright": lambda: k * x}[op]())
    if op == "sum": return float(flat.sum())
    if op == "prod": return float(flat.prod())
    if op == "mean": return float(flat.mean())
    if op == "median": return float(np.median(flat))
    if op == "variance": return float(flat.std() ** 2)
    if op == "size": return float(a.shape[0])
    if op == "rank":
        r = int(B)
        s = sorted(flat, reverse=True)
        return float(s[min(r, len(s)) - 1])


def zeros(shape):
    m, n = shape
    return [0.0] * n if m == 0 else [[0.0] * n for _ in range(m)]


def run_case(R, case, named, scalar_kind, n_case, mismatch_names=False, result="converter", late=False):
    BPTK_Py = common.use_repo()
    from BPTK_Py import Model
    sa, sb = tuple(case["sa"]), tuple(case["sb"])
    A, B = to_float(json.loads(case["A"])), to_float(json.loads(case["B"]))
    expect_reject = case["res"] == "reject" or mismatch_names
    exp = None if case["res"] == "reject" else to_float(json.loads(case["res"]))
    if case["form"] == "agg" and case["op"] == "variance":
        pass
    model = Model(starttime=0.0, stoptime=1.0, dt=1.0, name="c10_%d" % n_case)
    info = {"form": case["form"], "op": case["op"] + ("" if "op2" not in case else " (inner %s, nested on the %s)" % (case["op2"], {"L": "left", "R": "right"}[case["pos"]])), "shape_a": list(sa), "shape_b": list(sb), "named": named, "scalar": scalar_kind, "A": A, "B": B,
            "result_element": result}
    oa, ob, ores = case.get("orders", ["fwd", "fwd", "fwd"])
    if "orders" in case:
        info["declaration_orders"] = {"a": oa, "b": ob, "result": ores}
    prev = tuple(case["prev"]) if "prev" in case else None
    accepted = False
    try:
        if prev:
            # the array first exists with the smaller shape and is used once, then it is set up again with its final shape
            info["previous_shape_of_a"] = list(prev)
            pv = [float(k + 1) for k in range(prev[1])] if prev[0] == 0 else [[float(10 * r + k + 1) for k in range(prev[1])] for r in range(prev[0])]
            a = make_operand(model, "opa", prev, pv, scalar_kind, named)
            first = model.converter("first")
            first.equation = a * 2.0
            got1 = read_result(first, prev, named, 0.0)
            if not close(got1, (np.array(pv) * 2.0).tolist()):
                R.violation("arrayed result differs from the numpy result", dict(info, expected=(np.array(pv) * 2.0).tolist(), observed=got1, stage="before re-dimensioning"))
                return
            if prev[0] > 0:
                a._elements.matrix_size()
            a = make_operand(model, "opa", sa, A, scalar_kind, named, el=a)
        elif late:
            # the Python expression is written while its operands are not dimensioned yet; they get their shape afterwards and
            # only then the stored expression becomes the equation (the arrays an equation computes on are those of the model
            # at evaluation time, whatever the order in which the program was written)
            info["expression_built_before_operands_were_dimensioned"] = True
            a = model.constant("opa") if sa != (0, 0) else make_operand(model, "opa", sa, A, scalar_kind, named)
            b = model.constant("opb") if sb != (0, 0) else make_operand(model, "opb", sb, B, scalar_kind, named)
            expr = {"+": lambda: a + b, "-": lambda: a - b, "*": lambda: a * b, "/": lambda: a / b}[case["op"]]()
            if sa != (0, 0):
                make_operand(model, "opa", sa, A, scalar_kind, named, el=a)
            if sb != (0, 0):
                make_operand(model, "opb", sb, B, scalar_kind, named, el=b)
        else:
            a = make_operand(model, "opa", sa, A, scalar_kind, named, order=oa)
        if late:
            pass
        elif case["form"] == "dotmix":
            b = make_operand(model, "opb", sb, B, scalar_kind, named)
            expr = {"sub": lambda: a - b.dot(a), "in": lambda: a.dot(b + (b * a)), "in1": lambda: a.dot(b + a)}[case["op"]]()
        elif case["form"] == "ew2":
            b = make_operand(model, "opb", sb, B, scalar_kind, named)
            f = {"+": lambda x, y: x + y, "-": lambda x, y: x - y, "*": lambda x, y: x * y}
            expr = f[case["op"]](a, f[case["op2"]](b, a)) if case["pos"] == "R" else f[case["op"]](f[case["op2"]](a, b), a)
        elif case["form"] == "aggin":
            kk = model.constant("kk"); kk.equation = float(B)
            two = model.constant("two"); two.equation = 2.0
            g = {"sum": lambda: a.arr_sum(), "prod": lambda: a.arr_prod(), "mean": lambda: a.arr_mean()}[case["agg"]]()
            info["aggregate"] = case["agg"]
            expr = {"powbase": lambda: g ** two, "divright": lambda: kk / g, "modright": lambda: (kk * 1.0) % g, "subright": lambda: kk - g,
                    "mulright": lambda: kk * g}[case["op"]]()
        elif case["form"] in ("agg", "aggedit"):
            expr = {"sum": lambda: a.arr_sum(), "prod": lambda: a.arr_prod(), "mean": lambda: a.arr_mean(), "median": lambda: a.arr_median(),
                    "variance": lambda: a.arr_stddev(), "size": lambda: a.arr_size(), "rank": lambda: a.arr_rank(int(B))}[case["op"]]()
        else:
            b = make_operand(model, "opb", sb, B, scalar_kind, named, other_names=mismatch_names, order=ob)
            if case["form"] == "dot":
                expr = a.dot(b)
            else:
                expr = {"+": lambda: a + b, "-": lambda: a - b, "*": lambda: a * b, "/": lambda: a / b}[case["op"]]()
        if result == "stock":
            # the result is the net flow of an arrayed stock (declared with its own name order, initial values 0): after one
            # step of length 1 the stock holds exactly the value of the expression
            res = make_operand(model, "res", res_shape(case), zeros(res_shape(case)), "element", named, order=ores, cls="stock")
            res.equation = expr
            accepted = True
            got = read_result(res, res_shape(case), named, 1.0)
        else:
            res = model.converter("res")
            res.equation = expr
            accepted = True
            if case["form"] == "aggedit":
                # the aggregate exists and has been read; now one entry of the array changes
                read_result(res, res_shape(case), named, 0.0)
                first = (names(sa[1], "x")[0] if named else 0) if sa[0] == 0 else None
                if sa[0] == 0:
                    a[first].equation = 9.0
                else:
                    r0, c0 = (names(sa[0], "x")[0], names(sa[1], "y")[0]) if named else (0, 0)
                    a[r0][c0].equation = 9.0
            got = read_result(res, res_shape(case), named, 0.0)
    except Exception as e:
        if accepted and not expect_reject:
            # the equation was accepted, so every entry of the numpy result must be there to be read
            R.violation("an accepted arrayed equation lacks entries of the numpy result (or they cannot be evaluated)",
                        dict(info, expected=exp, error="%s: %s" % (type(e).__name__, str(e)[:120])))
            return
        R.add("rejected_by_dsl")
        if not expect_reject:
            # an accepted-by-numpy operation the DSL rejects is not a wrong value: the property speaks of accepted equations
            R.add("valid_operations_rejected")
            R.cov.setdefault("rejected_examples", [])
            if len(R.cov["rejected_examples"]) < 6:
                R.cov["rejected_examples"].append({k: info[k] for k in ("form", "op", "shape_a", "shape_b", "named", "scalar")} | {"error": "%s: %s" % (type(e).__name__, str(e)[:80])})
        return
    if expect_reject:
        R.violation("operands with mismatching %s were accepted and evaluated" % ("index names" if mismatch_names else "shapes"), dict(info, observed=got))
        return
    if case["form"] in ("agg", "aggedit") and case["op"] == "variance":
        got = got ** 2 if not isinstance(got, list) else got      # arr_stddev is compared through the exact variance
    R.add("results_compared")
    if not close(got, exp):
        R.violation("arrayed result differs from the numpy result", dict(info, expected=exp, observed=got))
        return
    # independent cross-check of the specification itself against numpy
    if not mismatch_names:
        npv = numpy_result(case, A, B)
        if not close(npv, exp):
            raise common.Machinery("spec disagrees with numpy on %s: %s vs %s" % (info, exp, npv))
        R.add("spec_results_cross_checked_with_numpy")


def run(tier, replay_file=None):
    R = common.Run("C10", tier, "model_checking")
    quick = tier == "quick"
    mc = tlc.run("Arr", dict(MaxDim="3"), invariants=["Emit", "DotShapeOK"], workers=4, timeout=600)
    if mc.violation:
        R.violation("spec:" + mc.violation, {"trace": mc.trace[:2000]})
    R.cov["states"], R.cov["transitions"] = mc.distinct, mc.generated
    cases = sorted(mc.emitted, key=lambda c: json.dumps(c, sort_keys=True))
    R.cov["cases_enumerated"] = len(cases)
    R.cov["exhaustive"] = True
    n = 0
    for case in cases:
        if "orders" in case:        # by-name correspondence under permuted declaration orders, converter and stock results
            for result in ("converter", "stock"):
                n += 1
                run_case(R, case, True, "element", n, result=result)
                R.add("traces_validated_against_impl"); R.add("permuted_declaration_cases")
            continue
        if case["form"] in ("ew2", "aggedit", "dotmix"):
            for named in ((False,) if case["form"] == "dotmix" else (False, True)):        # the dot product is not offered for named arrays
                n += 1
                run_case(R, case, named, "element", n)
                R.add("traces_validated_against_impl"); R.add("nested_or_edited_cases")
            continue
        if "prev" in case:
            for named in (False, True):
                n += 1
                run_case(R, case, named, "element", n)
                R.add("traces_validated_against_impl"); R.add("redimensioned_cases")
            continue
        scal = tuple(case["sa"]) == (0, 0) or tuple(case["sb"]) == (0, 0)
        both_arrays = tuple(case["sa"]) != (0, 0) and tuple(case["sb"]) != (0, 0)
        for named in (False, True):
            for sk in (("element", "literal") if scal and case["form"] == "ew" else ("element",)):
                if tuple(case["sa"]) == (0, 0) and tuple(case["sb"]) == (0, 0):
                    continue
                n += 1
                run_case(R, case, named, sk, n)
                R.add("traces_validated_against_impl")
        if case["form"] == "ew" and case["res"] != "reject" and tuple(case["sa"]) != (0, 0):
            for named in (False, True):        # the same operation as the equation of an arrayed stock
                n += 1
                run_case(R, case, named, "element", n, result="stock")
                R.add("traces_validated_against_impl"); R.add("stock_result_cases")
        if case["form"] == "ew" and case["res"] != "reject" and not (tuple(case["sa"]) == (0, 0) and tuple(case["sb"]) == (0, 0)):
            for named in (False, True):        # the same program written in another order: expression first, shapes afterwards
                n += 1
                run_case(R, case, named, "element", n, late=True)
                R.add("traces_validated_against_impl"); R.add("expression_before_dimension_cases")
        if case["form"] == "ew" and both_arrays and case["sa"] == case["sb"]:
            n += 1
            run_case(R, case, True, "element", n, mismatch_names=True)     # equal shapes, different index names
            R.add("traces_validated_against_impl")
        if len(R.violations) >= 25:
            break
    if not R.violations and R.cov.get("results_compared", 0) < 500:
        raise common.Machinery("too few results compared: vacuous")
    R.sample(cases[len(cases) // 2])
    R.assumptions += ["dimensions 1..3, integer entries; standard deviation compared through the exact variance",
                      "a valid operation that the DSL rejects with an exception is counted (valid_operations_rejected) but is not a wrong value"]
    return R.finish()
