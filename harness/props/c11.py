"""C11 - agent events reach exactly the addressed agent, once, at the right step."""
import copy
from .. import tlc, gen, common, abm_replay

TYPES = ["a", "b"]
INVS = ["AtMostOnce", "RightAgent", "RightStep", "InOrder", "ExactlyOnce", "DueInTime", "QueueClean", "UniqueIds", "TypeMapExact"]


SPAWN_TLA = '[t \\in {"a","b"} |-> IF t = "a" THEN <<"b">> ELSE <<>>]'     # an agent of type a creates a b in its initialize()
SPAWN = {"a": ["b"]}


def consts(maxids, maxev, maxsteps, dt100, delays, ops, spawn='[t \\in {"a","b"} |-> <<>>]'):
    return dict(Types='{"a","b"}', Vals='{2}', Spawn=spawn, Configs='{<< <<"a",1,2>>, <<"b",1,2>> >>}',
                MaxIds=str(maxids), MaxEvents=str(maxev), MaxSteps=str(maxsteps), Delays=delays, Dt100=str(dt100),
                RunSpecs='{}', MaxPlans='0', PlanAhead='1', Ops=ops)


OPS_EXH = '{"Create","Delete","SetState","Send","RunStep"}'
OPS_ALL = '{"Create","Delete","Configure","SetState","Send","Plan","PlanBegin","RunStep"}'


def run(tier, replay_file=None):
    R = common.Run("C11", tier, "model_checking")
    quick = tier == "quick"
    # 1. design level
    R.cov["states"], R.cov["transitions"] = 0, 0
    for (mi, me, ms) in ([(2, 2, 3)] if quick else [(2, 2, 3), (3, 2, 3), (2, 3, 3)]):
        mc = tlc.run("Abm", dict(consts(mi, me, ms, 100, '{0,100,200}', OPS_EXH), L='0'),
                     invariants=INVS, view="ViewEv", spec="Spec", timeout=7200)
        if mc.violation:
            R.violation("spec:" + mc.violation, {"trace": mc.trace[:3000]})
        R.cov["states"] += mc.distinct
        R.cov["transitions"] += mc.generated
    R.cov["exhaustive_bounds"] = "ids,events,steps <= (2,2,3)" + ("" if quick else ", (3,2,3), (2,3,3)")
    # 2. spec -> code
    sets = []   # (histories, dt100, spawn)
    hs, _ = gen.histories("Abm", consts(3, 2, 3, 100, '{0,100}', '{"Create","Delete","Send","RunStep"}'), 4 if quick else 5)
    sets.append((hs, 100, None))
    R.cov["bfs_histories"] = len(hs)
    # populations whose agent list is not in id order: an agent that creates other agents in its initialize() gets the lower id
    # but is appended after them
    hs2, _ = gen.histories("Abm", consts(4, 2, 3, 100, '{0,100}', '{"Create","Delete","Send","RunStep"}', spawn=SPAWN_TLA), 4)
    sets.append((hs2 if not quick else __import__("random").Random(common.seed()).sample(hs2, min(len(hs2), 1500)), 100, SPAWN))
    R.cov["bfs_histories_nested_creation"] = len(hs2)
    # an inbox that holds, in one step, an event the agent has no handler for in its state AHEAD of one it handles (and the
    # other way round): every history Create, Create, SetState(idle), Send, Send, RunStep, RunStep
    UNH = ('MC_Unh == LET n == Len(hist\') h == hist\'[n] IN /\\ (n \\in {1, 2} => h.op = "Create") /\\ (n = 3 => h.op = "SetState" /\\ h.st = "idle")\n'
           '             /\\ (n \\in {4, 5} => h.op = "Send" /\\ h.d = 0) /\\ (n \\in {6, 7} => h.op = "RunStep")\n')
    hu, _ = gen.histories("Abm", consts(2, 2, 3, 100, '{0}', '{"Create","SetState","Send","RunStep"}'), 7, defs=UNH, extra_cfg={"action_constraints": ["MC_Unh"]})
    sets.append((hu, 100, None))
    R.cov["bfs_histories_unhandled_then_handled"] = len(hu)
    # events sent by the model itself from begin_round, next to events sent from act() in the same step: every history
    BEG = ('MC_Beg == LET n == Len(hist\') h == hist\'[n] IN /\\ (n = 1 => h.op = "Create") /\\ (n \\in {2, 3} => h.op \\in {"Plan", "PlanBegin"} /\\ h.k = 0)\n'
           '             /\\ (n = 2 => h.op = "PlanBegin") /\\ (n >= 4 => h.op = "RunStep")\n')
    hb, _ = gen.histories("Abm", consts(1, 2, 3, 100, '{0,100}', '{"Create","Plan","PlanBegin","RunStep"}'), 6, defs=BEG, extra_cfg={"action_constraints": ["MC_Beg"]})
    sets.append((hb, 100, None))
    R.cov["bfs_histories_begin_round_sends"] = len(hb)
    # the scheduler object replaced between two steps while delayed events are counting down: every history
    NSC = ('MC_Nsc == LET n == Len(hist\') h == hist\'[n] IN /\\ (n = 1 => h.op = "Create") /\\ (n = 2 => h.op = "Send")\n'
           '             /\\ (n >= 3 => h.op \\in {"RunStep", "NewScheduler"}) /\\ (n >= 4 /\\ h.op = "NewScheduler" => hist\'[n - 1].op = "RunStep")\n')
    hn, _ = gen.histories("Abm", consts(1, 1, 4, 100, '{0,100,200}', '{"Create","Send","NewScheduler","RunStep"}'), 8, defs=NSC, extra_cfg={"action_constraints": ["MC_Nsc"]})
    sets.append((hn, 100, None))
    R.cov["bfs_histories_scheduler_replaced"] = len(hn)
    # an agent that, inside one act(), deletes another agent and creates a replacement (the population keeps its size), and an
    # event sent to the replacement's id afterwards: every history Create, Create, PlanDel, PlanNew, Plan, RunStep x 3
    REP = ('MC_Rep == LET n == Len(hist\') h == hist\'[n] IN /\\ (n \\in {1, 2} => h.op = "Create") /\\ (n = 3 => h.op = "PlanDel" /\\ h.k = 0 /\\ h.snd # h.victim)\n'
           '             /\\ (n = 4 => h.op = "PlanNew" /\\ h.k = 0) /\\ (n = 5 => h.op = "Plan" /\\ h.k = 1) /\\ (n >= 6 => h.op = "RunStep")\n')
    hr, _ = gen.histories("Abm", dict(consts(3, 1, 3, 100, '{0,100}', '{"Create","PlanDel","PlanNew","Plan","RunStep"}'), MaxPlans='3'), 8,
                          defs=REP, extra_cfg={"action_constraints": ["MC_Rep"]})
    sets.append((hr, 100, None))
    R.cov["bfs_histories_replaced_agent"] = len(hr)
    nsim = 0
    menus = [(100, '{0,100,200,300}'), (50, '{0,30,50,70,100,150}'), (10, '{0,10,20,30,70,100}'),
             (25, '{0,25,50,60,75,100}'), (20, '{0,20,40,60,100}')]
    for k, (dt, delays) in enumerate(menus[:3] if quick else menus):
        h2, _ = gen.histories("Abm", consts(8, 12, 40, dt, delays, OPS_ALL), 24 if quick else 40,
                              simulate=25 if quick else 300, seed=common.seed() * 10 + k + 1, cache=False)
        sets.append((h2, dt, None))
        nsim += len(h2)
    h3, _ = gen.histories("Abm", consts(10, 12, 40, 50, '{0,30,50,100}', OPS_ALL, spawn=SPAWN_TLA), 24 if quick else 40,
                          simulate=25 if quick else 400, seed=common.seed() * 10 + 9, cache=False)
    sets.append((h3, 50, SPAWN))
    nsim += len(h3)
    R.cov["sim_histories"] = nsim
    handled_total, n_ops = 0, {}
    for hists, dt, spawn in sets:
        for hist in hists:
            bad = abm_replay.replay(hist, TYPES, dt, 2, {"q", "handled"}, spawn=spawn)
            R.add("traces_validated_against_impl")
            for h in hist:
                n_ops[h["op"]] = n_ops.get(h["op"], 0) + 1
                handled_total += len(h.get("handled", ()))
            if bad:
                bad["dt"] = dt / 100.0
                R.violation(bad["clause"], bad)
        if len(R.violations) >= 30:
            break
    R.cov["ops_replayed"] = n_ops
    for must in ("Create", "Delete", "Send", "Plan", "RunStep", "SetState", "Configure"):     # vacuity (TLC's -coverage exhausts the heap on Abm.tla)
        if not R.violations and n_ops.get(must, 0) == 0:
            raise common.Machinery("operation %s never occurs in the generated behaviours (vacuous)" % must)
    R.cov["events_handled_in_replays"] = handled_total
    if not R.violations and (handled_total < 50):
        raise common.Machinery("too few handled events in the generated behaviours (vacuous)")
    ex = sets[1][0][0]
    R.sample([{k: v for k, v in h.items() if k not in ("q",)} for h in ex][:14])
    # 3. negative control
    ctl = None
    for hist in sets[0][0]:
        for i, h in enumerate(hist):
            if h.get("handled"):
                ctl = copy.deepcopy(hist); ctl[i]["handled"][0]["by"] += 1
                break
        if ctl:
            break
    if ctl is None or abm_replay.replay(ctl, TYPES, 100, 2, {"q", "handled"}) is None:
        raise common.Machinery("negative control not rejected")
    R.assumptions += ["reference agents handle 'ping' in both states and 'pong' only when active; claims only for events handled by such a handler table",
                      "handling order is asserted only between events enqueued in the same step for the same agent",
                      "delays and dt are decimals with two digits; dt in {1,.5,.25,.2,.1}"]
    return R.finish()
