"""C02 - SD DSL expressions keep the grouping of the Python expression that built them."""
import math, random
from fractions import Fraction
from .. import common, expr_gen


def make_envs():
    BPTK_Py = common.use_repo()
    from BPTK_Py import Model, sd_functions as sd
    envs = []
    for e in expr_gen.ENVS:
        m = Model(starttime=0.0, stoptime=3.0, dt=1.0, name="c02")
        ns = {"sd": sd, "m": m}
        for n in "abc":
            el = m.constant(n)
            el.equation = float(Fraction(*e[n]))
            ns[n] = el
        x = m.converter("x")
        x2 = m.converter("x2")
        sx = m.stock("sx")
        sx.initial_value = 0.0
        envs.append((m, ns, {"conv": x, "conv2": x2, "stock": sx}))
    return envs


def read(el, mode):
    """the value of the expression at time 1: a converter is its equation; a stock integrates it (dt = 1), so the
    expression's value at time 1 is the stock's increment from 1 to 2 (the equation is rendered for time t - dt)"""
    return el(1.0) if mode != "stock" else el(2.0) - el(1.0)


def evaluate(envs, py, mode="conv", defined=None):
    """returns per environment ("val", float) | ("rejected", exception text); environments in which the reference is
    undefined are not evaluated at all (factorial(13 ** 7) would keep the interpreter busy for hours)"""
    out = []
    for k, (m, ns, els) in enumerate(envs):
        if defined is not None and not defined[k]:
            out.append(("skipped", None))
            continue
        x = els[mode]
        try:
            x.equation = eval(py, dict(ns))
            v = read(x, mode)
            if isinstance(v, complex) or v is None:
                out.append(("rejected", "value %r" % (v,)))
            else:
                out.append(("val", float(v)))
        except Exception as e:
            out.append(("rejected", "%s: %s" % (type(e).__name__, str(e)[:80])))
    return out


def evaluate_shared(envs, prog):
    """u = <bind>; both uses are built from the same object u, then assigned, then evaluated"""
    out = []
    for k, (m, ns, els) in enumerate(envs):
        if prog["val"][k][1] == 0 or prog["val2"][k][1] == 0:
            out.append(("skipped", None))
            continue
        try:
            scope = dict(ns)
            scope["u"] = eval(prog["bind"], dict(ns))
            e1 = eval(prog["py"], scope)
            e2 = eval(prog["py2"], scope)
            els["conv"].equation = e1
            els["conv2"].equation = e2
            v1, v2 = els["conv"](1.0), els["conv2"](1.0)
            if any(isinstance(v, complex) or v is None for v in (v1, v2)):
                out.append(("rejected", "value %r %r" % (v1, v2)))
            else:
                out.append(("val", (float(v1), float(v2))))
        except Exception as e:
            out.append(("rejected", "%s: %s" % (type(e).__name__, str(e)[:80])))
    return out


def check_shared(R, envs, progs):
    n_cmp = 0
    for p in progs:
        got = evaluate_shared(envs, p)
        for i, (r1, r2, (kind, v)) in enumerate(zip(p["val"], p["val2"], got)):
            if r1[1] == 0 or r2[1] == 0 or kind == "rejected":
                continue
            n_cmp += 1
            exp = (r1[0] / r1[1], r2[0] / r2[1])
            if not all(math.isclose(a, b, rel_tol=1e-9, abs_tol=1e-9) for a, b in zip(v, exp)):
                R.violation("expression built from a shared sub-expression object differs from the value of its own tree",
                            {"u": p["bind"], "first_use": p["py"], "second_use": p["py2"], "environment": expr_gen.ENVS[i],
                             "expected": exp, "observed": v})
                break
        if len(R.violations) >= 25:
            break
    R.add("shared_programs_compared", n_cmp)
    return n_cmp


def check_trees(R, envs, trees, label, mode="conv"):
    n_cmp = n_rej = n_undef = 0
    for t in trees:
        got = evaluate(envs, t["py"], mode, [v[1] != 0 for v in t["val"]])
        for i, (ref, (kind, v)) in enumerate(zip(t["val"], got)):
            if ref[1] == 0:
                n_undef += 1
                continue
            if kind == "rejected":
                n_rej += 1
                continue
            exp = ref[0] / ref[1]
            n_cmp += 1
            if not math.isclose(v, exp, rel_tol=1e-9, abs_tol=1e-9):
                R.violation("DSL value differs from the value of the Python expression",
                            {"expression": t["py"], "environment": expr_gen.ENVS[i], "expected": exp, "observed": v, "family": label,
                             "used_as": "net flow of a stock (equation read at t - dt)" if mode == "stock" else "converter equation"})
                break
        if len(R.violations) >= 25:
            break
    R.add("values_compared", n_cmp)
    R.add("rejected_by_dsl", n_rej)
    R.add("skipped_undefined_reference", n_undef)
    return n_cmp


def run(tier, replay_file=None):
    R = common.Run("C02", tier, "model_checking")
    quick = tier == "quick"
    rng = random.Random(common.seed())
    envs = make_envs()
    pairs, st1 = expr_gen.family("pairs")
    chains, st2 = expr_gen.family("chains")
    R.cov["states"] = st1["distinct"] + st2["distinct"]
    R.cov["transitions"] = st1["generated"] + st2["generated"]
    R.cov["pair_trees"], R.cov["chain_trees"] = len(pairs), len(chains)
    n = check_trees(R, envs, pairs, "pairs") + check_trees(R, envs, chains, "chains")
    # the same trees as the net flow of a stock: every operator renders its operands for the time t - dt
    spairs = pairs if not quick else rng.sample(pairs, min(1500, len(pairs)))
    n += check_trees(R, envs, spairs, "pairs", "stock") + check_trees(R, envs, chains, "chains", "stock")
    R.cov["stock_equation_trees"] = len(spairs) + len(chains)
    shared, st4 = expr_gen.family("shared")
    R.cov["states"] += st4["distinct"]
    R.cov["transitions"] += st4["generated"]
    R.cov["shared_programs"] = len(shared)
    if quick:
        shared = rng.sample(shared, min(2500, len(shared)))
    check_shared(R, envs, shared)
    d2, st3 = expr_gen.family("depth2", binops='{"+","-","*","/","**","%",">","<="}')
    R.cov["states"] += st3["distinct"]
    R.cov["transitions"] += st3["generated"]
    R.cov["depth2_trees_enumerated"] = len(d2)
    if quick:
        d2 = rng.sample(d2, min(2500, len(d2)))
    n += check_trees(R, envs, d2, "depth2")
    R.cov["depth2_trees_replayed"] = len(d2)
    R.cov["traces_validated_against_impl"] = len(pairs) + len(chains) + len(d2)
    R.cov["exhaustive"] = not quick
    if not R.violations and n < 3000:
        raise common.Machinery("too few values compared (%d): vacuous" % n)
    R.sample(pairs[len(pairs) // 3]); R.sample(chains[0])
    # negative control: a mis-grouped expectation must be flagged
    t = dict(next(x for x in chains if x["py"] == "(a - (b - (c - a)))"))
    t["val"] = [[v[0] + v[1], v[1]] for v in t["val"]]
    ctl = common.Run("C02", tier, "model_checking")
    check_trees(ctl, envs, [t], "control")
    if not ctl.violations:
        raise common.Machinery("negative control not rejected")
    R.assumptions += ["operands a, b, c are constants with values from 5 environments chosen so that different groupings give different values",
                      "reference undefined (skipped) at division by zero, non-integer or large powers, comparison ties, zero remainders, half-way rounding, sqrt of non-squares, exp of non-zero",
                      "a nesting the DSL rejects with an exception (construction or evaluation) conforms"]
    return R.finish()
