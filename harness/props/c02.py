"""C02 - SD DSL expressions keep the grouping of the Python expression that built them."""
import math, random
from fractions import Fraction
from .. import common, expr_gen


def make_envs():
    BPTK_Py = common.use_repo()
    from BPTK_Py import Model, sd_functions as sd
    envs = []
    for e in expr_gen.ENVS:
        m = Model(starttime=0.0, stoptime=2.0, dt=1.0, name="c02")
        ns = {"sd": sd}
        for n in "abc":
            el = m.constant(n)
            el.equation = float(Fraction(*e[n]))
            ns[n] = el
        x = m.converter("x")
        envs.append((m, ns, x))
    return envs


def evaluate(envs, py):
    """returns per environment ("val", float) | ("rejected", exception text)"""
    out = []
    for m, ns, x in envs:
        try:
            x.equation = eval(py, dict(ns))
            v = x(1.0)
            if isinstance(v, complex) or v is None:
                out.append(("rejected", "value %r" % (v,)))
            else:
                out.append(("val", float(v)))
        except Exception as e:
            out.append(("rejected", "%s: %s" % (type(e).__name__, str(e)[:80])))
    return out


def check_trees(R, envs, trees, label):
    n_cmp = n_rej = n_undef = 0
    for t in trees:
        got = evaluate(envs, t["py"])
        for i, (ref, (kind, v)) in enumerate(zip(t["val"], got)):
            if ref[1] == 0:
                n_undef += 1
                continue
            if kind == "rejected":
                n_rej += 1
                continue
            exp = ref[0] / ref[1]
            n_cmp += 1
            if not math.isclose(v, exp, rel_tol=1e-9, abs_tol=1e-9):
                R.violation("DSL value differs from the value of the Python expression",
                            {"expression": t["py"], "environment": expr_gen.ENVS[i], "expected": exp, "observed": v, "family": label})
                break
        if len(R.violations) >= 25:
            break
    R.add("values_compared", n_cmp)
    R.add("rejected_by_dsl", n_rej)
    R.add("skipped_undefined_reference", n_undef)
    return n_cmp


def run(tier, replay_file=None):
    R = common.Run("C02", tier, "model_checking")
    quick = tier == "quick"
    rng = random.Random(common.seed())
    envs = make_envs()
    pairs, st1 = expr_gen.family("pairs")
    chains, st2 = expr_gen.family("chains")
    R.cov["states"] = st1["distinct"] + st2["distinct"]
    R.cov["transitions"] = st1["generated"] + st2["generated"]
    R.cov["pair_trees"], R.cov["chain_trees"] = len(pairs), len(chains)
    n = check_trees(R, envs, pairs, "pairs") + check_trees(R, envs, chains, "chains")
    d2, st3 = expr_gen.family("depth2", binops='{"+","-","*","/","**","%",">","<="}')
    R.cov["states"] += st3["distinct"]
    R.cov["transitions"] += st3["generated"]
    R.cov["depth2_trees_enumerated"] = len(d2)
    if quick:
        d2 = rng.sample(d2, min(2500, len(d2)))
    n += check_trees(R, envs, d2, "depth2")
    R.cov["depth2_trees_replayed"] = len(d2)
    R.cov["traces_validated_against_impl"] = len(pairs) + len(chains) + len(d2)
    R.cov["exhaustive"] = not quick
    if not R.violations and n < 3000:
        raise common.Machinery("too few values compared (%d): vacuous" % n)
    R.sample(pairs[len(pairs) // 3]); R.sample(chains[0])
    # negative control: a mis-grouped expectation must be flagged
    t = dict(next(x for x in chains if x["py"] == "(a - (b - (c - a)))"))
    t["val"] = [[v[0] + v[1], v[1]] for v in t["val"]]
    ctl = common.Run("C02", tier, "model_checking")
    check_trees(ctl, envs, [t], "control")
    if not ctl.violations:
        raise common.Machinery("negative control not rejected")
    R.assumptions += ["operands a, b, c are constants with values from 5 environments chosen so that different groupings give different values",
                      "reference undefined (skipped) at division by zero, non-integer or large powers, comparison ties, zero remainders, half-way rounding, sqrt of non-squares, exp of non-zero",
                      "a nesting the DSL rejects with an exception (construction or evaluation) conforms"]
    return R.finish()
