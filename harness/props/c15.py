"""C15 - with a bearer token set, protected endpoints serve and change nothing without it."""
import copy, json, os
from .. import tlc, gen, common, srv_replay, srv_adapter as S

TOKEN = "s3cretTok"
PUBLIC = {"/", "/healthy", "/metrics", "/full-metrics"}
# credential shapes that do NOT contain the exact token as a space-delimited word (refusal is demanded for these only)
CREDS = {
    "absent": None, "empty": "", "scheme-only": "Bearer", "scheme-space": "Bearer ", "wrong": "Bearer wrong",
    "prefix": "Bearer " + TOKEN[:-1], "suffix": "Bearer " + TOKEN + "x", "case": "Bearer " + TOKEN.swapcase(),
    "double-space": "Bearer  " + TOKEN[:-2], "quoted": 'Bearer "%s"' % TOKEN, "basic-wrong": "Basic " + TOKEN[1:],
    "one-word-wrong": "nonsense", "comma": "Bearer " + TOKEN + ",", "three-words-wrong": "Bearer a b",
}
SETTINGS = {"sm": {"base": {"constants": {"k": 9.0}}}}


def bodies(uid):
    b = {
        "/run": {"scenario_managers": ["sm"], "scenarios": ["base"], "equations": ["s", "k"], "settings": SETTINGS},
        "/equations": {"scenarioManager": "sm", "scenario": "base"},
        "/agents": {"scenarioManager": "sm", "scenario": "base"},
        "/start-instance": {"timeout": {"minutes": 5}},
        "/start-instances": {"instances": 2, "timeout": {"minutes": 5}},
        "/<instance_uuid>/begin-session": {"scenario_managers": ["sm"], "scenarios": ["base"], "equations": ["s", "f", "k"], "settings": SETTINGS},
        "/<instance_uuid>/run-step": {"settings": SETTINGS},
        "/<instance_uuid>/run-steps": {"numberSteps": 2, "settings": SETTINGS},
        "/<instance_uuid>/stream-steps": {"settings": SETTINGS},
    }
    return b


def snapshot(srv):
    """deep snapshot of everything a refused request must leave alone"""
    def scen(b):
        out = {}
        if b is None:
            return out
        for mn, man in b.scenario_manager_factory.scenario_managers.items():
            for sn, sc in man.scenarios.items():
                memo = sum(len(v) for v in sc.model.memo.values()) if getattr(sc, "model", None) is not None else 0
                out[mn + "/" + sn] = (json.dumps(sc.constants, sort_keys=True, default=str), json.dumps(sc.points, sort_keys=True, default=str),
                                      sc.starttime, sc.stoptime, sc.dt, sc.sd_simulation is None, memo)
        return out
    snap = {"instances": {}}
    for uid, rec in srv.app._instance_manager._instances.items():
        b = rec["instance"]
        snap["instances"][uid] = (str(rec["time"]), json.dumps(rec["timeout"], sort_keys=True),
                                  repr(b.session_state), scen(b), id(b))
    snap["server_bptk"] = scen(srv.app._bptk)
    files = {}
    if srv.state_dir:
        for fn in sorted(os.listdir(srv.state_dir)):
            with open(os.path.join(srv.state_dir, fn)) as f:
                files[fn] = f.read()
    snap["files"] = files
    snap["destroyed"] = dict(srv.destroy_calls)
    return snap


def diff(a, b):
    out = []
    for k in ("instances", "server_bptk", "files", "destroyed"):
        if a[k] != b[k]:
            ka, kb = a[k], b[k]
            for x in sorted(set(ka) | set(kb)):
                if ka.get(x) != kb.get(x):
                    out.append("%s[%s]: %s -> %s" % (k, x, str(ka.get(x))[:160], str(kb.get(x))[:160]))
    return out


def rules(srv):
    """(rule string, method) for every protected rule of the live URL map (OPTIONS: Flask's automatic
    response invokes no handler; it must change nothing but is not required to be refused)"""
    out = []
    for r in srv.app.url_map.iter_rules():
        if r.rule.startswith("/static"):
            continue
        for m in sorted(r.methods):
            out.append((r.rule, m))
    return out


def send(srv, rule, method, uid, cred):
    path = rule.replace("<instance_uuid>", uid)
    body = bodies(uid).get(rule)
    kw = {}
    if cred is not None:
        kw["headers"] = {"Authorization": cred}
    if body is not None and method in ("POST", "PUT"):
        kw["data"] = json.dumps(body); kw["content_type"] = "application/json"
    r = srv.client.open(path, method=method, **kw)
    data = r.get_data()     # drain (streams)
    return r.status_code


def states():
    """constructors of the server states the statement lists (+ an externalised, swept instance)"""
    def none(srv):
        return "0" * 32
    def no_session(srv):
        srv.start("i1", 50); return srv.uid("i1")
    def live(srv):
        srv.start("i1", 50); srv.begin("i1", "base", 3); srv.step("i1", 0, "base"); return srv.uid("i1")
    def locked(srv):
        u = live(srv)
        srv.app._instance_manager._instances[u]["instance"].lock()      # the state a running run-steps leaves visible
        return u
    def externalised(srv):
        srv.start("i1", 2); srv.begin("i1", "base", 3); srv.step("i1", 0, "base")
        srv.start("i2", 50); srv.tick(5); srv.req("GET", "/full-metrics", cred=None)   # i1 swept, its file stays
        return srv.uid("i1")
    def served_once(srv):
        # a server on which every route has already answered an authorised client once (before anybody else asked)
        u = live(srv)
        for r in srv.app.url_map.iter_rules():
            if r.rule.startswith("/static") or r.rule in PUBLIC or "stop-instance" in r.rule or "load-state" in r.rule:
                continue
            for m in sorted(r.methods - {"OPTIONS", "HEAD"}):
                try:
                    send(srv, r.rule, m, u, "Bearer " + TOKEN)
                except Exception:
                    pass
        return u
    return [("every-route-served-once-to-an-authorised-client", served_once, False), ("no-instances", none, False), ("instance-without-session", no_session, False), ("live-session", live, True),
            ("locked-session", locked, False), ("externalised-swept-instance", externalised, True)]


def run(tier, replay_file=None):
    R = common.Run("C15", tier, "model_checking")
    quick = tier == "quick"
    probe = S.Srv(stop=4, adapter=False, token=TOKEN)
    try:
        all_rules = rules(probe)
    finally:
        probe.close()
    prot = [(r, m) for r, m in all_rules if r not in PUBLIC]
    kinds = sorted({"%s %s" % (m, r) for r, m in prot if m != "OPTIONS"})
    # 1. design: the refused-request action leaves the server state alone in every reachable state
    cons = dict(Inst='{"i1","i2"}', Timeouts='{2}', Ticks='{2}', KVals='{0,3}', StepVals='{0}', Stop='2', MaxNow='4', Scen='{"base"}',
                Ops='{"Start","Begin","Step","Results","End","Stop","Metrics","Tick","Refused"}', Adapter="TRUE", Compress="FALSE",
                Kinds="{" + ",".join('"%s"' % k for k in kinds) + "}", Creds="{" + ",".join('"%s"' % c for c in sorted(CREDS)) + "}", Dev='{}')
    mc = tlc.run("Server", dict(cons, L='0', Kinds='{"POST /<instance_uuid>/run-step", "GET /save-state"}', Creds='{"absent","wrong"}'),
                 invariants=["AliveOK", "GoneOK", "Continuity"], properties=["AuthOK", "Isolated"], view="View", spec="Spec", timeout=3000)
    if mc.violation:
        R.violation("spec:" + mc.violation, {"trace": mc.trace[:3000]})
    R.cov["states"], R.cov["transitions"] = mc.distinct, mc.generated
    # 2. exhaustive table: state x rule x method x credential shape against the live app
    n_req, n_refused = 0, 0
    for sname, build, adapter in states():
        for ad in ((True,) if adapter else (False, True)):
            srv = S.Srv(stop=4, adapter=ad, token=TOKEN, base_constants=True)
            try:
                uid = build(srv)
                for rule, method in prot:
                    for cname, cred in CREDS.items():
                        srv.clock.advance(milliseconds=1)      # time passes between requests: a refused request that touches an instance moves its last access
                        before = snapshot(srv)
                        try:
                            status = send(srv, rule, method, uid, cred)
                        except Exception as e:
                            status = "EXC %s" % type(e).__name__
                        after = snapshot(srv)
                        n_req += 1
                        d = diff(before, after)
                        info = {"state": sname, "adapter": ad, "rule": rule, "method": method, "credential": cname, "header": cred, "status": status}
                        if method != "OPTIONS":
                            n_refused += 1
                            if not (isinstance(status, int) and status >= 400):
                                R.violation("request without the token was served", info)
                        if d:
                            info["changed"] = d[:4]
                            R.violation("refused request changed server state", info)
                        if len(R.violations) >= 20:
                            break
                    if len(R.violations) >= 20:
                        break
                # anti-vacuity: with the right token the same requests are served and do change state
                served, changed = 0, 0
                for rule, method in prot:
                    if method in ("OPTIONS", "HEAD") or "stop-instance" in rule or "load-state" in rule:
                        continue
                    srv.clock.advance(milliseconds=1)      # time passes between requests: a refused request that touches an instance moves its last access
                    before = snapshot(srv)
                    st = send(srv, rule, method, uid, "Bearer " + TOKEN)
                    served += int(isinstance(st, int) and st < 400)
                    changed += int(bool(diff(before, snapshot(srv))))
                R.add("authorised_controls_served", served)
                R.add("authorised_controls_changed_state", changed)
                # ... and once every route has been served to an authorised client, the table again: an answer that was
                # worked out for an authorised request must not be replayed to anybody else
                for rule, method in prot:
                    if method in ("OPTIONS", "HEAD") or "stop-instance" in rule:
                        continue
                    for cname in ("absent", "wrong", "case"):
                        srv.clock.advance(milliseconds=1)      # time passes between requests: a refused request that touches an instance moves its last access
                        before = snapshot(srv)
                        try:
                            status = send(srv, rule, method, uid, CREDS[cname])
                        except Exception as e:
                            status = "EXC %s" % type(e).__name__
                        d = diff(before, snapshot(srv))
                        n_req += 1; n_refused += 1
                        info = {"state": sname + " (after authorised requests on every route)", "adapter": ad, "rule": rule, "method": method, "credential": cname, "status": status}
                        if not (isinstance(status, int) and status >= 400):
                            R.violation("request without the token was served", info)
                        if d:
                            info["changed"] = d[:4]
                            R.violation("refused request changed server state", info)
            finally:
                srv.close()
            if len(R.violations) >= 20:
                break
    R.cov["requests"], R.cov["refusals_demanded"] = n_req, n_refused
    R.cov["rules"], R.cov["credential_shapes"] = len(prot), len(CREDS)
    R.cov["exhaustive"] = True
    if not R.violations and (R.cov.get("authorised_controls_served", 0) < 20 or R.cov.get("authorised_controls_changed_state", 0) < 10):
        raise common.Machinery("authorised control requests are not served / change nothing: the table is vacuous")
    # 3. spec -> code: histories mixing authorised requests and refused ones
    hs, _ = gen.histories("Server", cons, 14 if quick else 24, simulate=12 if quick else 120, seed=common.seed() + 9, cache=False)
    for hist in hs:
        srv = S.Srv(stop=2, adapter=True, token=TOKEN, base_constants=True)
        try:
            pos = 0
            for n, h in enumerate(hist):
                if h["op"] != "Refused":
                    continue
                bad = srv_replay.replay(hist[pos:n], stop=2, adapter=True, srv=srv, base_constants=True) if n > pos else None
                pos = n + 1
                if bad:
                    R.violation(bad["clause"], bad); break
                method, rule = h["kind"].split(" ", 1)
                srv.clock.advance(milliseconds=1)      # time passes between requests: a refused request that touches an instance moves its last access
                before = snapshot(srv)
                st = send(srv, rule, method, srv.uid(h["i"]), CREDS[h["cred"]])
                d = diff(before, snapshot(srv))
                R.add("refused_in_histories")
                if not (isinstance(st, int) and st >= 400) or d:
                    R.violation("refused request in history", {"request": h, "status": st, "changed": d[:4],
                                "prefix": [{a: b for a, b in x.items() if a not in ("rows", "want", "row")} for x in hist[:n + 1]]})
                    break
            else:
                if pos < len(hist):
                    bad = srv_replay.replay(hist[pos:], stop=2, adapter=True, srv=srv, base_constants=True)
                    if bad:
                        R.violation(bad["clause"], bad)
            R.add("traces_validated_against_impl")
        finally:
            srv.close()
        if len(R.violations) >= 20:
            break
    # 4. requests without the token that arrive WHILE an authorised request is inside its handler on another thread: the
    #    authorised request is parked at each linearization point of the stepping protocol (StepLock.tla: T, R, W, U) and the
    #    whole table of protected rules is sent without / with a wrong token at each of these points
    from .. import sched
    inflight = 0
    for kind, body in (("run-steps", {"numberSteps": 2, "settings": {}}), ("run-step", {"settings": {}}), ("begin-session", None)):
        srv = S.Srv(stop=4, adapter=False, token=TOKEN, base_constants=True)
        try:
            srv.start("i1", 500); srv.begin("i1", "base", 0)
            srv.start("i2", 500)
            uid = srv.uid("i1")
            inst = srv.app._instance_manager._instances[uid]["instance"]
            ctl = sched.Controller(lambda: (bool(inst.is_locked()), 0), anchors=None if kind != "begin-session" else
                                   [("BPTK_Py.server.bptkServer", "instance.begin_session(", "G"), ("BPTK_Py.bptk", "self.session_state=", "S"),
                                    ("BPTK_Py.bptk", "self.session_state =", "S")], required={"G"} if kind == "begin-session" else None)
            def authorised(kind=kind, body=body):
                cl = srv.app.test_client()
                b = body if body is not None else {"scenario_managers": ["sm"], "scenarios": ["base"], "equations": ["s", "f", "k"]}
                r = cl.post("/%s/%s" % (uid, kind), data=json.dumps(b), content_type="application/json", headers={"Authorization": "Bearer " + TOKEN})
                return r.status_code
            ctl.spawn("a", authorised)
            points = 0
            while ctl.runnable() and points < 40:
                w = ctl.workers["a"]
                where = w.parked_at
                for rule, method in prot:
                    if method in ("OPTIONS", "HEAD"):
                        continue
                    for cname in ("absent", "wrong"):
                        srv.clock.advance(milliseconds=1)      # time passes between requests: a refused request that touches an instance moves its last access
                        before = snapshot(srv)
                        try:
                            status = send(srv, rule, method, srv.uid("i2") if "stop-instance" in rule else uid, CREDS[cname])
                        except Exception as e:
                            status = "EXC %s" % type(e).__name__
                        d = diff(before, snapshot(srv))
                        inflight += 1
                        info = {"while": "an authorised %s is in its handler, parked at anchor %s" % (kind, where), "rule": rule, "method": method,
                                "credential": cname, "status": status}
                        if not (isinstance(status, int) and status >= 400):
                            R.violation("request without the token was served", info)
                        if d:
                            info["changed"] = d[:4]
                            R.violation("refused request changed server state", info)
                    if len(R.violations) >= 20:
                        break
                if len(R.violations) >= 20:
                    break
                ctl.advance("a")
                points += 1
            ctl.run([])
            if ctl.workers["a"].result != 200:
                raise common.Machinery("the authorised %s did not complete (%r, %r)" % (kind, ctl.workers["a"].result, ctl.workers["a"].error))
        finally:
            srv.close()
        if len(R.violations) >= 20:
            break
    R.cov["refusals_demanded_while_authorised_request_in_flight"] = inflight
    R.sample({"rules": ["%s %s" % (m, r) for r, m in prot][:8], "credentials": CREDS})
    R.assumptions += ["refusal is demanded only for credentials that do not contain the exact token as a space-delimited word",
                      "Flask's automatic OPTIONS response (no handler runs) must change nothing but is not required to be a refusal",
                      "state snapshot: instance table (time, timeout, session state, scenario settings, memo sizes, object identity), server-level scenarios, bytes of the state directory, destroy calls"]
    return R.finish()
