"""C16 - server instances are isolated from one another."""
import copy, json
from .. import tlc, gen, common, srv_replay, srv_adapter as S

OPS = '{"Start","Begin","Step","Results","KeepAlive","Stop","End","Metrics"}'


def consts(insts, stop, kv='{0,3}', sv='{0}'):
    return dict(Inst=insts, Timeouts='{9}', Ticks='{}', KVals=kv, StepVals=sv, Stop=str(stop), MaxNow='0',
                Scen='{"base","high"}', Ops=OPS, Adapter="FALSE", Compress='FALSE', Kinds='{}', Creds='{}', Dev='{}')


def stream_enumeration():
    """every interleaving of 3 further stepping / stream requests after: two instances started, both in a session, one stream open"""
    c = consts('{"i1","i2"}', 3, kv='{0,3}', sv='{0,4}')
    c["Ops"] = '{"Start","Begin","Step","Stream","Results","Steps"}'
    c["Scen"] = '{"base"}'
    STREAM = ('MC_Stream == LET n == Len(hist\') h == hist\'[n] IN\n'
              '   /\\ (n \\in {1, 2} => h.op = "Start")\n'
              '   /\\ (n \\in {3, 4} => h.op = "Begin" /\\ h.status = 200)\n'
              '   /\\ (n = 5 => h.op = "StreamOpen" /\\ h.status = 200)\n'
              '   /\\ (n >= 6 => h.op \\in {"Step", "StreamNext", "StreamClose", "StreamOpen", "Steps"})\n')
    hx, _ = gen.histories("Server", c, 8, defs=STREAM, extra_cfg={"action_constraints": ["MC_Stream"]})
    return hx


def warm():
    print("Server stream interleavings: %d" % len(stream_enumeration()))


def solo(hist, i):
    """the requests addressed to instance i only (an instance started in a batch is started alone)"""
    out = []
    for h in hist:
        if h.get("i") == i:
            out.append(h)
        elif h["op"] == "StartMany" and i in h["is"]:
            out.append({"op": "Start", "i": i, "to": h["to"], "status": 200})
    return out


def run(tier, replay_file=None):
    R = common.Run("C16", tier, "model_checking")
    quick = tier == "quick"
    mc = tlc.run("Server", dict(consts('{"i1","i2"}', 2, kv='{0,3}' if quick else '{0,3,4}'), L='0'), invariants=["Continuity", "AliveOK"],
                 properties=["Isolated"], view="View", spec="Spec", timeout=3000)
    if mc.violation:
        R.violation("spec:" + mc.violation, {"trace": mc.trace[:3000]})
    R.cov["states"], R.cov["transitions"] = mc.distinct, mc.generated
    cs = consts('{"i1","i2"}', 2, kv='{0,3}', sv='{0,4}')
    cs["Ops"] = '{"Start","Begin","Step","Stream","Results"}'; cs["Scen"] = '{"base"}'
    ms = tlc.run("Server", dict(cs, L='0'), invariants=["Continuity", "AliveOK"], properties=["Isolated"], view="View", spec="Spec", timeout=3000)
    if ms.violation:
        R.violation("spec:" + ms.violation, {"trace": ms.trace[:3000]})
    R.cov["states"] += ms.distinct
    R.cov["transitions"] += ms.generated
    # spec -> code: interleavings of requests to 2-3 instances on one server, each response compared with the
    # spec AND with a solo replay of that instance's own requests on a fresh server
    sets = []
    for n, (insts, bc, sv) in enumerate([('{"i1","i2"}', False, '{0}'), ('{"i1","i2","i3"}', False, '{0}'), ('{"i1","i2"}', True, '{0,4}')]):
        hs, _ = gen.histories("Server", consts(insts, 3, sv=sv), 16 if quick else 28, simulate=14 if quick else 150,
                              seed=common.seed() * 10 + n + 1, cache=False)
        sets.append((hs, bc))
    # open stream-steps responses: while the stream of one instance is open (the client reads result by result), the other
    # instances are used normally; a second stepping request on the streaming instance itself is refused
    c = consts('{"i1","i2"}', 3, kv='{0,3}', sv='{0,4}')
    c["Ops"] = '{"Start","Begin","Step","Stream","Results","Steps"}'
    c["Scen"] = '{"base"}'
    hs, _ = gen.histories("Server", c, 14 if quick else 22, simulate=40 if quick else 400, seed=common.seed() * 10 + 8, cache=False)
    sets.append((hs, True))
    R.cov["stream_histories"] = len(hs)
    hx = stream_enumeration()
    import random as _r
    hx = _r.Random(common.seed()).sample(hx, min(len(hx), 150 if quick else 2500))
    sets.append((hx, True))
    R.cov["stream_interleavings_enumerated"] = len(hx)
    # instance life cycles: an instance that began a session with settings is stopped (or just sits there) while another
    # one is started and begins a session without settings
    c = consts('{"i1","i2"}', 3, kv='{0,3}', sv='{0}')
    c["Ops"] = '{"Start","Begin","Step","Stop"}'
    c["Scen"] = '{"base"}'
    hs, _ = gen.histories("Server", c, 7, simulate=60 if quick else 600, seed=common.seed() * 10 + 7, cache=False)
    sets.append((hs, False))
    # ... and the same life cycle enumerated exhaustively over which instance is which (incl. the same id started again)
    LIFE = ('MC_Life == LET n == Len(hist\') h == hist\'[n] IN\n'
            '   /\\ (n \\in {1, 5} => h.op = "Start")\n'
            '   /\\ (n = 2 => h.op = "Begin" /\\ h.kv = 3 /\\ h.status = 200)\n'
            '   /\\ (n \\in {3, 7} => h.op = "Step" /\\ h.status = 200)\n'
            '   /\\ (n = 4 => h.op = "Stop")\n'
            '   /\\ (n = 6 => h.op = "Begin" /\\ h.kv = 0 /\\ h.status = 200)\n')
    hl, _ = gen.histories("Server", c, 7, defs=LIFE, extra_cfg={"action_constraints": ["MC_Life"]})
    R.cov["life_cycle_histories"] = len(hl)
    sets.append((hl, False))
    # two instances created by ONE start-instances request, then used with different settings: every such history
    c2 = consts('{"i1","i2"}', 3, kv='{0,3}', sv='{0}')
    c2["Ops"] = '{"StartMany","Begin","Step","Results"}'
    c2["Scen"] = '{"base"}'
    BATCH = ('MC_Batch == LET n == Len(hist\') h == hist\'[n] IN\n'
             '   /\\ (n = 1 => h.op = "StartMany") /\\ (n \\in {2, 3} => h.op = "Begin" /\\ h.status = 200)\n'
             '   /\\ (n = 3 => h.i # hist\'[2].i /\\ h.kv # hist\'[2].kv) /\\ (n >= 4 => h.op \\in {"Step", "Results"})\n')
    hb, _ = gen.histories("Server", c2, 6, defs=BATCH, extra_cfg={"action_constraints": ["MC_Batch"]})
    R.cov["batch_start_histories"] = len(hb)
    sets.append((hb if not quick else hb[::max(1, len(hb) // 60)], False))
    # the same life cycles on a server whose instances read their scenarios from a JSON file in scenarios/ (XMILE source):
    # whatever is cached per file or per process is shared by the instances
    sets.append((hl, "files"))
    sets.append((sets[0][0][:6], "files"))
    # ... and on a server whose factory registers ONE Model object, built once, with every instance (a module-level model)
    sets.append((hl, "shared"))
    sets.append((hb[::max(1, len(hb) // (40 if quick else 400))], "shared"))
    R.cov["shared_model_object_histories"] = len(sets[-1][0]) + len(sets[-2][0])
    # a server with an external state adapter: instance i1 (short timeout, no session) is swept from memory, then a request names
    # it (a miss: i1 alone comes back from the store) while i2 is in a session with its own settings - i2 goes on undisturbed.
    # Every history Start i1, Start i2, Begin i2, Step i2, Tick, Metrics, <request to i1>, Step i2, Results i2.
    cm = dict(consts('{"i1","i2"}', 4, kv='{0,3}', sv='{0,4}'), Adapter="TRUE", Timeouts='{2,9}', Ticks='{3}', MaxNow='100', Scen='{"base"}',
              Ops='{"Start","Begin","Step","Results","KeepAlive","Metrics","Tick"}')
    MISS = ('MC_Miss == LET n == Len(hist\') h == hist\'[n] IN\n'
            '   /\\ (n = 1 => h.op = "Start" /\\ h.i = "i1" /\\ h.to = 2) /\\ (n = 2 => h.op = "Start" /\\ h.i = "i2" /\\ h.to = 9)\n'
            '   /\\ (n = 3 => h.op = "Begin" /\\ h.i = "i2" /\\ h.status = 200) /\\ (n = 4 => h.op = "Step" /\\ h.i = "i2")\n'
            '   /\\ (n = 5 => h.op = "Tick") /\\ (n = 6 => h.op = "Metrics") /\\ (n = 7 => h.op \\in {"KeepAlive", "Results", "Begin"} /\\ h.i = "i1")\n'
            '   /\\ (n = 8 => h.op = "Step" /\\ h.i = "i2") /\\ (n = 9 => h.op = "Results" /\\ h.i = "i2")\n')
    hm, _ = gen.histories("Server", cm, 9, defs=MISS, extra_cfg={"action_constraints": ["MC_Miss"]})
    R.cov["store_miss_histories"] = len(hm)
    if quick:
        import random as _rm
        hm = _rm.Random(common.seed() + 2).sample(hm, min(len(hm), 700))
    for hist in hm:
        bad = srv_replay.replay(hist, stop=4, adapter=True, base_constants=True)
        R.add("traces_validated_against_impl")
        if bad:
            bad["family"] = "a miss on a swept instance's id next to a live session (external state adapter)"
            R.violation(bad["clause"], bad)
            if len(R.violations) >= 10:
                break
    if not hm:
        raise common.Machinery("store-miss family is empty (vacuous)")
    compared = 0
    import time as _time
    t_end = _time.time() + (20 * 60 if quick else 45 * 60)        # the replays of one run are bounded in time (recorded when reached)
    for hs, bc in sets:
        files, shared = bc == "files", bc == "shared"
        bc = True if files else False if shared else bc       # the file lists the scenario's constants, so a parsed-file cache would hand out ONE dictionary
        for hn, hist in enumerate(hs):
            if _time.time() > t_end:
                R.cov["time_budget_reached_histories_skipped"] = R.cov.get("time_budget_reached_histories_skipped", 0) + len(hs) - hn
                break
            obs = []
            bad = srv_replay.replay(hist, stop=3, adapter=False, base_constants=bc, observe=obs, files=files, shared=shared)
            R.add("traces_validated_against_impl")
            if bad:
                bad["scenarios_from_files"] = files
                bad["one_model_object_for_all_instances"] = shared
                R.violation(bad["clause"], bad)
                continue
            for i in sorted({h["i"] for h in hist if "i" in h}):
                sub = solo(hist, i)
                obs1 = []
                bad = srv_replay.replay(sub, stop=3, adapter=False, base_constants=bc, observe=obs1, files=files, shared=shared)
                R.add("solo_replays")
                if bad:
                    bad["solo_of"] = i
                    R.violation("solo replay: " + bad["clause"], bad)
                    break
                mine = [(op, st, json.dumps(d, sort_keys=True)) for (n, op, j, st, d) in obs if j == i and op != "Start"]
                alone = [(op, st, json.dumps(d, sort_keys=True)) for (n, op, j, st, d) in obs1 if j == i and op != "Start"]
                compared += len(mine)
                if mine != alone:
                    k = next(x for x in range(min(len(mine), len(alone))) if mine[x] != alone[x]) if len(mine) == len(alone) else -1
                    R.violation("response differs from solo replay", {"instance": i, "index": k,
                                "with_others": mine[k] if k >= 0 else len(mine), "alone": alone[k] if k >= 0 else len(alone),
                                "history": [{a: b for a, b in h.items() if a not in ("rows", "want", "row")} for h in hist]})
                    break
            if len(R.violations) >= 20:
                break
    R.cov["responses_compared_with_solo"] = compared
    if not R.violations and (compared < 200):
        raise common.Machinery("too few responses compared (vacuous)")
    R.sample([{a: b for a, b in h.items() if a not in ("rows", "want", "row")} for h in sets[0][0][0]])
    # negative control: responses of one instance swapped into another's solo comparison must differ
    R.assumptions += ["interleaving at request granularity; instances share one server process",
                      "timeouts are covered by C17 (here all timeouts are long)",
                      "run-step settings are only used with a scenario that lists the constant (known finding KF-C07-1)"]
    return R.finish()
