"""C09 - every way of obtaining results reports the same numbers on the same grid."""
import importlib, json, math, random
from .. import tlc, gen, common

EQSETS = [["s", "f", "k", "u"], ["s"], ["s", "k"], ["k", "f"], ["f", "s"], ["u"], ["u", "s"]]


def consts(start4, dt4, n, kv='{0,3,5}', ops='{"Step","Steps","Stream","Batch","Restart"}'):
    return dict(Start4=str(start4), Dt4=str(dt4), N=str(n), K0='1', KVals=kv, Ops=ops)


def flat_tab(v):
    return [[-1000.0, float(v)], [1000.0, float(v)]]


def build_points(start4, dt4, n):
    """the same reference model with its parameter delivered as a graphical function: k = lookup(time, tab), tab flat at the
    parameter's value.  A setting k := v is then the points setting tab := flat_tab(v)."""
    common.use_repo()
    from BPTK_Py import Model
    from BPTK_Py import sd_functions as sd
    m = Model(starttime=start4 / 4.0, stoptime=(start4 + n * dt4) / 4.0, dt=dt4 / 4.0, name="sessp")
    m.points["tab"] = flat_tab(1.0)
    k = m.converter("k"); k.equation = sd.lookup(sd.time(), "tab")
    r = m.converter("r"); r.equation = k * 1.0
    f = m.flow("f"); f.equation = r
    s = m.stock("s"); s.initial_value = 0.0; s.equation = f
    return m


def build(start4, dt4, n, model_dt4=None):
    """model_dt4: the model is built with another (coarser) dt; the run's dt then arrives through begin_session settings"""
    common.use_repo()
    from BPTK_Py import Model
    m = Model(starttime=start4 / 4.0, stoptime=(start4 + n * dt4) / 4.0, dt=(model_dt4 or dt4) / 4.0, name="sess")
    k = m.constant("k"); k.equation = 1.0
    r = m.converter("r"); r.equation = k * 1.0       # between the constant and the flow; never among the requested equations
    f = m.flow("f"); f.equation = r
    s = m.stock("s"); s.initial_value = 0.0; s.equation = f
    u = m.stock("u"); u.initial_value = k; u.equation = f       # a stock whose initial value is the constant
    return m


def want_row(r, eqs):
    vals = {"s": r["s4"] / 4.0, "u": r["u4"] / 4.0, "f": float(r["k"]), "k": float(r["k"])}
    return r["t4"] / 4.0, {e: vals[e] for e in eqs}


K_SHADOW = 2.0      # the second scenario of every session never receives settings: s = 2*(t - start), f = k = 2
START = [0.0]


def shadow_ok(d, eqs):
    for e in d:
        for t, v in d[e].items():
            want = K_SHADOW * (float(t) - START[0]) + (K_SHADOW if e == "u" else 0.0) if e in ("s", "u") else K_SHADOW
            if not math.isclose(float(v), want, abs_tol=1e-9):
                return "%s(%s) = %s, expected %s" % (e, t, v, want)
    return None


def proj_step(res, eqs):
    """a run_step result {sm: {sc: {eq: {t: v}}}} -> (t, {eq: v}) or a message"""
    if res is None:
        return None
    if isinstance(res, dict) and "msg" in res:
        return ("msg", res["msg"])
    if "zz" in res["sm"]:
        bad = shadow_ok(res["sm"]["zz"], eqs)
        if bad:
            return ("bad", "scenario zz (which never received settings): " + bad)
    d = res["sm"]["base"]
    ts = {float(t) for e in d for t in d[e]}
    if len(ts) != 1:
        return ("bad", "times %s" % sorted(ts))
    t = list(ts)[0]
    return (t, {e: float(list(d[e].values())[0]) for e in d})


def rows_equal(got, exp_rows, eqs):
    """got: list of (t, {eq: v}) / ("msg", ..); exp_rows: spec rows"""
    if len(got) != len(exp_rows):
        return "number of results: expected %d, observed %d (%s)" % (len(exp_rows), len(got), got[:8])
    for g, r in zip(got, exp_rows):
        if "msg" in r:
            if g is None or g[0] != "msg":
                return "expected the stop message, observed %s" % (g,)
            continue
        t, vals = want_row(r, eqs)
        if g is None or g[0] in ("msg", "bad") or abs(g[0] - t) > 1e-9:
            return "time: expected %s, observed %s" % (t, g)
        if sorted(g[1]) != sorted(vals):
            return "equations at t=%s: expected %s, observed %s" % (t, sorted(vals), sorted(g[1]))
        for e in vals:
            if not math.isclose(g[1][e], vals[e], abs_tol=1e-9):
                return "%s(%s): expected %s, observed %s" % (e, t, vals[e], g[1][e])
    return None


def settings(v):
    return {"sm": {"base": {"constants": {"k": float(v)}}}} if v > 0 else {}


def replay_api(hist, start4, dt4, n, eqs, dt_by_settings=False, points=False):
    BPTK_Py = common.use_repo()
    b = BPTK_Py.bptk()
    settings = (lambda v: {"sm": {"base": {"points": {"tab": flat_tab(v)}}}} if v > 0 else {}) if points else globals()["settings"]
    try:
        if points:
            b.register_model(build_points(start4, dt4, n), scenario_manager="sm",
                             scenario={"base": {"points": {"tab": flat_tab(1.0)}}, "zz": {"points": {"tab": flat_tab(K_SHADOW)}}})
        else:
          b.register_model(build(start4, dt4, n, model_dt4=2 * dt4 if dt_by_settings else None), scenario_manager="sm",
                         scenario={"base": {"constants": {"k": 1.0}}, "zz": {"constants": {"k": K_SHADOW}}})
        START[0] = start4 / 4.0
        if hist and hist[0]["op"] == "Batch":       # the memo of the scenario is full when the session begins
            b.run_scenarios(scenario_managers=["sm"], scenarios=["base", "zz"], equations=["s", "f", "k"] + ([] if points else ["u"]), return_format="df")
        def begin(first):
            rs = {"runspecs": {"dt": dt4 / 4.0}}
            b.begin_session(scenarios=["base", "zz"], scenario_managers=["sm"], equations=eqs,
                            settings=({"sm": {"base": dict(rs), "zz": dict(rs)}} if dt_by_settings and first else {}))
        begin(True)
        for h in hist:
            if h["op"] == "Batch":
                continue
            if h["op"] == "Restart":
                b.end_session()
                begin(False)
                continue
            got = [proj_step(b.run_step(settings=settings(h["set"])), eqs) for _ in range(h["n"])]
            bad = rows_equal(got, h["rows"], eqs)
            if bad:
                return "session API %s(n=%d, k:=%d): %s" % (h["op"], h["n"], h["set"], bad)
        log = hist[-1]["log"]
        by_time = b.session_results(index_by_time=True)
        got = [proj_step(v, eqs) for _, v in sorted(by_time.items(), key=lambda kv: float(kv[0]))]
        bad = rows_equal(got, log, eqs)
        if bad:
            return "session_results(index_by_time=True): " + bad
        by_eq = b.session_results(index_by_time=False)
        if log:
            d = by_eq["sm"]["base"]["equations"]
            got = [(float(t), {e: float(d[e][t]) for e in d}) for t in sorted(d[eqs[0]], key=float)]
            bad = rows_equal(got, log, eqs)
            if bad:
                return "session_results(index_by_time=False): " + bad
            flat = b.session_results(index_by_time=False, flat=True)["sm"]["base"]["equations"]
            for e in eqs:
                exp = [want_row(r, eqs)[1][e] for r in log]
                if len(flat[e]) != len(exp) or any(not math.isclose(float(a), x, abs_tol=1e-9) for a, x in zip(flat[e], exp)):
                    return "flat session results of %s: expected %s, observed %s" % (e, exp, flat[e])
        return None
    finally:
        b.destroy()


def replay_rest(hist, start4, dt4, n, eqs, flat):
    BPTK_Py = common.use_repo()
    srvmod = importlib.import_module("BPTK_Py.server.bptkServer")

    def factory():
        b = BPTK_Py.bptk()
        b.register_model(build(start4, dt4, n), scenario_manager="sm", scenario={"base": {"constants": {"k": 1.0}}, "zz": {"constants": {"k": K_SHADOW}}})
        return b
    START[0] = start4 / 4.0
    app = srvmod.BptkServer(__name__, factory)
    c = app.test_client()
    hdr = dict(content_type="application/json")
    try:
        uid = json.loads(c.post("/start-instance", data="{}", **hdr).get_data(as_text=True))["instance_uuid"]
        r = c.post("/%s/begin-session" % uid, data=json.dumps({"scenario_managers": ["sm"], "scenarios": ["base", "zz"], "equations": eqs}), **hdr)
        if r.status_code != 200:
            return "begin-session: %s" % r.status_code

        def proj(x):
            if flat and isinstance(x, dict) and "sm" in x:       # flat: {sm: {sc: {eq: v}}} without times
                zz = x["sm"].get("zz", {})
                if any(e not in ("s", "u") and not math.isclose(float(v), K_SHADOW, abs_tol=1e-9) for e, v in zz.items()):
                    return ("bad", "scenario zz (which never received settings): %s" % zz)
                return ("flat", {e: float(v) for e, v in x["sm"]["base"].items()})
            return proj_step(x, eqs)
        for h in hist:
            if h["op"] == "Batch":
                c.post("/run", data=json.dumps({"scenario_managers": ["sm"], "scenarios": ["base", "zz"], "equations": eqs}), **hdr)
                continue
            if h["op"] == "Restart":
                c.post("/%s/end-session" % uid, **hdr)
                r = c.post("/%s/begin-session" % uid, data=json.dumps({"scenario_managers": ["sm"], "scenarios": ["base", "zz"], "equations": eqs}), **hdr)
                if r.status_code != 200:
                    return "begin-session (second session): %s" % r.status_code
                continue
            body = {"settings": settings(h["set"])}
            if flat:
                body["flatResults"] = True
            if h["op"] == "Step":
                r = c.post("/%s/run-step" % uid, data=json.dumps(body), **hdr)
                got = [proj(json.loads(r.get_data(as_text=True)))] if r.status_code == 200 else [("bad", r.status_code)]
            elif h["op"] == "Steps":
                r = c.post("/%s/run-steps" % uid, data=json.dumps(dict(body, numberSteps=h["n"])), **hdr)
                got = [proj(x) for x in json.loads(r.get_data(as_text=True))] if r.status_code == 200 else [("bad", r.status_code)]
            else:
                r = c.post("/%s/stream-steps" % uid, data=json.dumps(body), **hdr)
                got = [proj(x) for x in json.loads(r.get_data(as_text=True))] if r.status_code == 200 else [("bad", r.status_code)]
            if flat:
                exp = [r_ for r_ in h["rows"]]
                if len(got) != len(exp):
                    return "REST %s flat: expected %d results, observed %s" % (h["op"], len(exp), got)
                for g, r_ in zip(got, exp):
                    if "msg" in r_:
                        continue
                    vals = want_row(r_, eqs)[1]
                    if g[0] != "flat" or sorted(g[1]) != sorted(vals) or any(not math.isclose(g[1][e], vals[e], abs_tol=1e-9) for e in vals):
                        return "REST %s flat result: expected %s, observed %s" % (h["op"], vals, g)
            else:
                bad = rows_equal(got, h["rows"], eqs)
                if bad:
                    return "REST %s(n=%d, k:=%d): %s" % (h["op"], h["n"], h["set"], bad)
        log = hist[-1]["log"]
        if log:
            d = json.loads(c.get("/%s/session-results" % uid).get_data(as_text=True))["sm"]["base"]["equations"]
            got = [(float(t), {e: float(d[e][t]) for e in d}) for t in sorted(d[eqs[0]], key=float)]
            bad = rows_equal(got, log, eqs)
            if bad:
                return "GET session-results: " + bad
            fl = json.loads(c.get("/%s/flat-session-results" % uid).get_data(as_text=True))["sm"]["base"]["equations"]
            for e in eqs:
                exp = [want_row(r_, eqs)[1][e] for r_ in log]
                if len(fl[e]) != len(exp) or any(not math.isclose(float(a), x, abs_tol=1e-9) for a, x in zip(fl[e], exp)):
                    return "GET flat-session-results of %s: expected %s, observed %s" % (e, exp, fl[e])
        return None
    finally:
        for v in list(app._instance_manager._instances.values()):
            v["instance"].destroy()
        if app._bptk is not None:
            app._bptk.destroy()


def batch_formats(start4, dt4, n):
    """df, dict, json and POST /run of the settings-free run against the closed form"""
    BPTK_Py = common.use_repo()
    b = BPTK_Py.bptk()
    try:
        b.register_model(build(start4, dt4, n), scenario_manager="sm", scenario={"base": {"constants": {"k": 1.0}}})
        exp = {(start4 + j * dt4) / 4.0: {"s": j * dt4 / 4.0, "f": 1.0, "k": 1.0} for j in range(n + 1)}
        eqs = ["s", "f", "k"]
        def chk(name, table):
            if sorted(table) != sorted(exp):
                return "%s: time grid expected %s, observed %s" % (name, sorted(exp), sorted(table))
            for t in exp:
                for e in eqs:
                    if not math.isclose(table[t][e], exp[t][e], abs_tol=1e-9):
                        return "%s: %s(%s) expected %s, observed %s" % (name, e, t, exp[t][e], table[t][e])
            return None
        df = b.run_scenarios(scenario_managers=["sm"], scenarios=["base"], equations=eqs, return_format="df")
        bad = chk("df", {float(t): {e: float(df[e if e in df.columns else "sm_base_" + e][t]) for e in eqs} for t in df.index})
        if bad: return bad
        dd = b.run_scenarios(scenario_managers=["sm"], scenarios=["base"], equations=eqs, return_format="dict")["sm"]["base"]["equations"]
        bad = chk("dict", {float(t): {e: float(dd[e][t]) for e in eqs} for t in dd["s"].index})
        if bad: return bad
        js = b.run_scenarios(scenario_managers=["sm"], scenarios=["base"], equations=eqs, return_format="json")
        js = (json.loads(js) if isinstance(js, str) else js)["sm"]["base"]["equations"]
        bad = chk("json", {float(t): {e: float(js[e][t]) for e in eqs} for t in js["s"]})
        if bad: return bad
        srvmod = importlib.import_module("BPTK_Py.server.bptkServer")
        app = srvmod.BptkServer(__name__, lambda: b)
        r = app.test_client().post("/run", data=json.dumps({"scenario_managers": ["sm"], "scenarios": ["base"], "equations": eqs}), content_type="application/json")
        rj = json.loads(r.get_data(as_text=True))["sm"]["base"]["equations"]
        return chk("POST /run", {float(t): {e: float(rj[e][t]) for e in eqs} for t in rj["s"]})
    finally:
        b.destroy()


def run(tier, replay_file=None):
    R = common.Run("C09", tier, "model_checking")
    quick = tier == "quick"
    rng = random.Random(common.seed())
    specs = [(4, 4, 4), (0, 2, 5), (2, 4, 4), (1, 2, 4), (2, 1, 6), (-8, 4, 4), (-4, 2, 5)]      # (start, dt, steps) in quarters; two start before 0 + ([] if quick else [(0, 4, 6), (8, 1, 8), (4, 2, 3)])   # incl. starts that are not multiples of dt
    R.cov["states"], R.cov["transitions"] = 0, 0
    n_hist = 0
    for start4, dt4, n in specs:
        mc = tlc.run("Session", dict(consts(start4, dt4, n), L='99'), invariants=["OnGrid", "WithinRun", "Euler", "EulerU", "InitialU"], properties=["AppendOnly"],
                     view="View", spec="Spec", timeout=3000)
        if mc.violation:
            R.violation("spec:" + mc.violation, {"trace": mc.trace[:2000]})
        R.cov["states"] += mc.distinct
        R.cov["transitions"] += mc.generated
        # all partitions of the run into run-step / run-steps / stream-steps calls with per-step settings, up to 3-4 calls
        hs, _ = gen.histories("Session", consts(start4, dt4, n), 3 if quick else 4)
        hs = rng.sample(hs, min(len(hs), 60 if quick else 600))
        # two sessions one after the other that send the SAME step settings: every history of the shape
        # Steps(k:=v) ; Restart ; Steps(k:=v) ; Step
        hr, _ = gen.histories("Session", consts(start4, dt4, n), 4, extra_cfg={"action_constraints": ["MC_Twice"]},
                              defs='MC_Twice == LET m == Len(hist\') h == hist\'[m] IN /\\ (m = 2 => h.op = "Restart") /\\ (m # 2 => h.op \\in {"Step", "Steps"})\n'
                                   '               /\\ (m = 3 => h.set = hist\'[1].set /\\ h.set > 0)\n')
        hs = hs + (hr if not quick else rng.sample(hr, min(len(hr), 12)))
        bad = batch_formats(start4, dt4, n)
        R.add("traces_validated_against_impl")
        if bad:
            R.violation("batch formats disagree with the run", {"runspec": (start4 / 4, (start4 + n * dt4) / 4, dt4 / 4), "detail": bad})
        for j, hist in enumerate(hs):
            eqs = EQSETS[j % len(EQSETS)]
            info = {"runspec": {"start": start4 / 4, "stop": (start4 + n * dt4) / 4, "dt": dt4 / 4}, "equations": eqs,
                    "calls": [{a: b for a, b in h.items() if a in ("op", "n", "set")} for h in hist]}
            for name, fn in (("api", lambda: replay_api(hist, start4, dt4, n, eqs, dt_by_settings=(j % 4 == 1))), ("rest", lambda: replay_rest(hist, start4, dt4, n, eqs, flat=False)),
                             ("api-points", lambda: replay_api(hist, start4, dt4, n, eqs, points=True)),        # the parameter and its step settings as a graphical function
                             ("rest-flat", lambda: replay_rest(hist, start4, dt4, n, eqs, flat=True))):
                if name != "api" and j % 3 != 0:
                    continue
                if name == "api-points" and "u" in eqs:
                    continue
                try:
                    bad = fn()
                except Exception as e:
                    bad = "exception %s: %s" % (type(e).__name__, str(e)[:160])
                R.add("traces_validated_against_impl")
                n_hist += 1
                if bad:
                    R.violation("channel %s disagrees with the run" % name, dict(info, detail=bad))
            if len(R.violations) >= 20:
                break
        if len(R.violations) >= 20:
            break
    R.cov["channel_replays"] = n_hist
    if not R.violations and n_hist < 150:
        raise common.Machinery("too few channel replays (vacuous)")
    R.sample({"calls": [{"op": "Step", "n": 1, "set": 0}, {"op": "Steps", "n": 2, "set": 3}, {"op": "Stream", "set": 5}], "equation_sets": EQSETS})
    R.assumptions += ["reference model: constant, flow, stock; dt in {1, .5, .25}; requested-equation subsets rotate over the histories",
                      "ABM sessions are not covered (run_step 'currently only supports SD scenarios')"]
    return R.finish()
