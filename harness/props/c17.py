"""C17 - an instance lives exactly as long as its timeout since last access allows."""
import copy
from .. import tlc, gen, common, srv_replay
from ..srv_adapter import UNITS

INVS = ["AliveOK", "GoneOK"]


def consts(adapter, ops, insts='{"i1","i2","i3"}', timeouts='{1,2,3}', ticks='{1,2}', maxnow=6, stop=2):
    return dict(Inst=insts, Timeouts=timeouts, Ticks=ticks, KVals='{0}', StepVals='{0}', Stop=str(stop), MaxNow=str(maxnow),
                Scen='{"base"}', Ops=ops, Adapter="TRUE" if adapter else "FALSE", Compress='FALSE', Kinds='{}', Creds='{}', Dev='{}')


OPS_MEM = '{"Start","KeepAlive","Metrics","Tick","Results","Stop"}'
OPS_ALL = '{"Start","Begin","Step","Results","KeepAlive","Metrics","Tick","Stop","End"}'


def run(tier, replay_file=None):
    R = common.Run("C17", tier, "model_checking")
    quick = tier == "quick"
    R.cov["states"], R.cov["transitions"] = 0, 0
    for ad, ops, insts, mx in ([(False, OPS_MEM, '{"i1","i2","i3"}', 5), (True, OPS_ALL, '{"i1","i2"}', 4)] if quick else
                               [(False, OPS_MEM, '{"i1","i2","i3"}', 7), (True, OPS_ALL, '{"i1","i2"}', 6), (False, OPS_ALL, '{"i1","i2"}', 6)]):
        mc = tlc.run("Server", dict(consts(ad, ops, insts=insts, maxnow=mx), L='0'), invariants=INVS, view="View", spec="Spec", timeout=3000)
        if mc.violation:
            R.violation("spec:" + mc.violation, {"trace": mc.trace[:3000]})
        R.cov["states"] += mc.distinct
        R.cov["transitions"] += mc.generated
    # spec -> code under the controlled clock: every timedelta unit, mixed-unit timeouts, with / without adapter
    plans = []
    units = UNITS + ["mixed", "mixed2"]
    for n, unit in enumerate(units):
        for ad in (False, True):
            if unit == "mixed":
                c = consts(ad, OPS_ALL, timeouts='{61,90,120}', ticks='{30,31,60}', maxnow=100000)
            elif unit == "mixed2":
                c = consts(ad, OPS_ALL, timeouts='{25,36,48}', ticks='{12,13,24}', maxnow=100000)
            else:
                c = consts(ad, OPS_ALL, maxnow=100000)
            hs, _ = gen.histories("Server", c, 18 if quick else 30, simulate=8 if quick else 120,
                                  seed=common.seed() * 100 + n * 2 + int(ad) + 1, cache=False)
            plans.append((unit, ad, hs))
    # enumerated families (every history of the shape, so that nothing depends on which random histories a seed happens to draw):
    # (a) one externalised instance: session begun, then ended / stepped / kept alive, time passes, then every kind of request
    FAM_A = ('MC_Life == LET n == Len(hist\') h == hist\'[n] IN\n'
             '   /\\ (n = 1 => h.op = "Start") /\\ (n = 2 => h.op = "Begin") /\\ (n = 3 => h.op \\in {"End", "Step", "KeepAlive"})\n'
             '   /\\ (n = 4 => h.op = "Tick") /\\ (n \\in {5, 6} => h.op \\in {"Metrics", "Step", "End", "Begin", "Results", "KeepAlive"})\n')
    ha, _ = gen.histories("Server", consts(True, OPS_ALL, insts='{"i1"}', maxnow=100000), 6, defs=FAM_A, extra_cfg={"action_constraints": ["MC_Life"]})
    # (b) three instances in memory with different timeouts, accessed in different orders, time passing in between
    FAM_B = ('MC_Sweep == LET n == Len(hist\') h == hist\'[n] IN\n'
             '   /\\ (n \\in {1, 2} => h.op = "Start") /\\ (n = 2 => h.i # hist\'[1].i) /\\ (n \\in {3, 5} => h.op = "Tick")\n'
             '   /\\ (n = 4 => h.op \\in {"KeepAlive", "Results", "Metrics", "Start"}) /\\ (n = 6 => h.op \\in {"KeepAlive", "Results"}) /\\ (n = 7 => h.op = "Metrics")\n')
    hb, _ = gen.histories("Server", consts(False, OPS_MEM, insts='{"i1","i2","i3"}', maxnow=100000), 7, defs=FAM_B, extra_cfg={"action_constraints": ["MC_Sweep"]})
    R.cov["enumerated_life_histories"], R.cov["enumerated_sweep_histories"] = len(ha), len(hb)
    import random as _r
    ha = _r.Random(common.seed() + 1).sample(ha, min(len(ha), 250 if quick else 1680))
    hb = _r.Random(common.seed() + 2).sample(hb, min(len(hb), 250 if quick else 6000))
    plans += [("seconds", True, ha), ("minutes", True, ha[::3]), ("seconds", False, hb), ("hours", False, hb[::3])]
    expiries = 0
    ops = {}
    for pn, (unit, ad, hs) in enumerate(plans):
        for hn, hist in enumerate(hs):
            # every other history: sessions span two scenario managers whose scenario names differ
            bad = srv_replay.replay(hist, stop=2, adapter=ad, unit=unit, base_constants=True, two=(pn + hn) % 2 == 1)
            R.add("traces_validated_against_impl")
            seen = set()
            for h in hist:
                ops[h["op"]] = ops.get(h["op"], 0) + 1
                if h["op"] == "Metrics":
                    expiries += 1
            if bad:
                bad["unit"], bad["adapter"] = unit, ad
                R.violation(bad["clause"], bad)
        if len(R.violations) >= 20:
            break
    R.cov["ops_replayed"] = ops
    R.cov["units"] = units
    if not R.violations and (ops.get("Metrics", 0) < 20 or ops.get("Tick", 0) < 50):
        raise common.Machinery("too few timed events generated (vacuous)")
    R.sample([{k: v for k, v in h.items() if k not in ("rows", "want", "row")} for h in plans[0][2][0]])
    # negative control: an instance that the spec says is gone is claimed alive
    ctl = None
    for unit, ad, hs in plans:
        for hist in hs:
            for i, h in enumerate(hist):
                if h["op"] == "Metrics" and len(h["alive"]) > 0:
                    ctl = (copy.deepcopy(hist), unit, ad)
                    ctl[0][i]["alive"] = []
                    ctl[0][i]["steps"] = {}
                    break
            if ctl:
                break
        if ctl:
            break
    if ctl is None or srv_replay.replay(ctl[0], stop=2, adapter=ctl[2], unit=ctl[1], base_constants=True) is None:
        raise common.Machinery("negative control not rejected")
    R.assumptions += ["controlled clock: the name `datetime` inside the server and adapter modules is replaced (DESIGN 5.5)",
                      "nothing is asserted about an access to an expired, not yet swept instance reviving it (modelled as the code does)"]
    return R.finish()
