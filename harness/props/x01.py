"""X01 (extension, not one of the 20 listed properties) - XMILE time built-ins of the transpiled model follow their
standard system-dynamics definitions: STEP, RAMP, DELAY, SMTH1, TREND, FORCST, PREVIOUS, INIT, PULSE over a time-varying input,
for the same parameter family and run specs as C04.  Reference: the XRow part of spec/SdModel.tla.
Deviations are reported per built-in; those listed in known_findings.json under "X01" are printed as KNOWN-FINDING."""
import math, shutil, tempfile
from .. import common, sd_gen, xmile_gen as X
from ..sd_gen import fr
from .c04 import num, dt_xml, times

ELEMENTS = ["xst", "xrm", "xdl", "xsm", "xsm0", "xtr", "xfc", "xpv", "xin", "xpl"]


def equations(P, rs):
    """element -> XMILE equation; parameters are auxiliaries (the transpiler rejects several built-ins with literal arguments)"""
    f2 = lambda x: str(x.numerator) if x.denominator == 1 else repr(float(x))
    delay = f2(P["dn"] * fr(rs["dt"]))
    first = f2(fr(rs["start"]) + P["pfirst"] * fr(rs["dt"]))
    interval = f2(P["pint"] * fr(rs["dt"]))
    return {"xst": "STEP(hh, t0)", "xrm": "RAMP(hh, t0)",
            "xdl": "DELAY(c1, %s%s)" % (delay, "" if P["dinit"][1] == 0 else ", dini"),
            "xsm": "SMTH1(c1, Tc, sini)", "xsm0": "SMTH1(c1, Tc)", "xtr": "TREND(c1, Tc, xti)", "xfc": "FORCST(c1, Tc, hz, xti)",
            "xpv": "PREVIOUS(c1, pini)", "xin": "INIT(c1)", "xpl": "PULSE(pv, %s, %s)" % (first, interval)}


def document(P, rs, spelling, only=None):
    start, stop = fr(rs["start"]), fr(rs["start"]) + rs["n"] * fr(rs["dt"])
    f2 = lambda x: str(x.numerator) if x.denominator == 1 else repr(float(x))
    v = [X.aux("a", num(P["a"])), X.aux("b", num(P["b"])), X.aux("c1", "a*TIME-b"),
         X.aux("hh", num(P["h"])), X.aux("t0", num(P["t0"])), X.aux("Tc", num(P["T"])), X.aux("sini", num(P["sinit"])),
         X.aux("dini", "0" if P["dinit"][1] == 0 else num(P["dinit"])), X.aux("xti", num(P["xti"])), X.aux("hz", num(P["hz"])),
         X.aux("pini", num(P["pinit"])), X.aux("pv", num(P["pv"]))]
    v += [X.aux(el, eq) for el, eq in equations(P, rs).items() if only is None or el == only]
    return X.document("x01", v, start=f2(start), stop=f2(stop), dt=dt_xml(rs["dt"], spelling))


def matches_known(el, P, rs):
    """the listed finding for this built-in explains a deviation only on the inputs it names"""
    dt, start = fr(rs["dt"]), fr(rs["start"])
    if el == "xrm":
        return fr(P["t0"]) == 0 and start != 0
    if el == "xpl":
        return 0 < P["pint"] * dt < 1
    if el == "xdl":
        return P["dinit"][1] != 0 and (dt.denominator & (dt.denominator - 1)) != 0      # decimal (non-binary) dt
    return el == "xtr"


def run(tier, replay_file=None):
    R = common.Run("X01", tier, "translation_validation")
    quick = tier == "quick"
    common.use_repo()
    trajs, st = sd_gen.trajectories(sd_gen.PARAMS, sd_gen.QUICK_RS + ([] if quick else sd_gen.MORE_RS))
    R.cov["states"], R.cov["transitions"] = st["distinct"], st["generated"]
    workdir = tempfile.mkdtemp(prefix="vx1_")
    known = {e["element"]: e for e in R.findings.open_for("X01")}
    known_hits, compared, per_el, rejected = {}, 0, {}, {}
    try:
        for n, case in enumerate(trajs):
            ts = times(case["rs"])
            R.add("traces_validated_against_impl")
            for el in ELEMENTS:
                # one document per built-in: a form the transpiler rejects (loudly) is counted, it is not a wrong value
                try:
                    sim, _ = X.compile_doc(document(case["P"], case["rs"], "decimal", only=el), workdir)
                    sim.equation(el, ts[0])
                except Exception as e:
                    rejected[el] = "%s: %s" % (type(e).__name__, str(e)[:60])
                    continue
                for k, row in enumerate(case["traj"]):
                    exp = fr(row[el])
                    if exp is None:
                        continue
                    try:
                        got = float(sim.equation(el, ts[k]))
                    except Exception as e:
                        got = "%s: %s" % (type(e).__name__, str(e)[:80])
                    compared += 1
                    if not isinstance(got, float) or not math.isclose(got, float(exp), rel_tol=1e-9, abs_tol=1e-9):
                        per_el[el] = per_el.get(el, 0) + 1
                        if el in known and matches_known(el, case["P"], case["rs"]):
                            known_hits[el] = known_hits.get(el, 0) + 1
                        elif per_el[el] <= 2:
                            R.violation("built-in element %s differs from its standard definition" % el,
                                        {"element": el, "t": ts[k], "grid_index": k, "expected": float(exp), "observed": got,
                                         "runspec": {x: str(fr(v)) if isinstance(v, list) else v for x, v in case["rs"].items()},
                                         "parameters": {x: (str(fr(v)) if isinstance(v, list) and len(v) == 2 and isinstance(v[0], int) else v) for x, v in case["P"].items()}})
                        break
    finally:
        shutil.rmtree(workdir, ignore_errors=True)
    R.cov["programs"] = len(trajs)
    R.cov["values_compared"] = compared
    R.cov["deviating_cases_per_element"] = per_el
    R.cov["forms_rejected_loudly"] = {el: "%s  [%s]" % (equations(trajs[0]["P"], trajs[0]["rs"])[el], why) for el, why in rejected.items()}
    for el, cnt in known_hits.items():
        R.known_finding(known[el]["id"], known[el]["what"][:160], cnt)
    R.assumptions += ["extension beyond the listed properties; reference semantics: XRow of spec/SdModel.tla (XMILE 1.0 section 3.5 built-ins)"]
    return R.finish()
