"""C13 - agent statistics equal the aggregates of the agent population."""
import copy, itertools, json, math, random
from .. import tlc, gen, common, abm_replay, abm_adapter as A

TYPES = ["a", "b"]
VALS = '{0-4, 0, 2, 5}'       # property values in halves: -2, 0, 1, 2.5
INVS = ["FoldOK", "UniqueIds", "TypeMapExact", "CountsAgree"]


def consts(maxids, maxsteps, maxplans, ops, runspecs='{}', configs='{}', ahead=2):
    return dict(Types='{"a","b"}', Vals=VALS, Spawn='[t \\in {"a","b"} |-> <<>>]', Configs=configs,
                MaxIds=str(maxids), MaxEvents='0', MaxSteps=str(maxsteps), Delays='{0}', Dt100='100',
                RunSpecs=runspecs, MaxPlans=str(maxplans), PlanAhead=str(ahead), Ops=ops)


CONFIGS = ('{<< <<"a",2,2>>, <<"b",1,5>> >>, << <<"a",1,0-4>>, <<"a",2,0>>, <<"b",2,2>> >>, << <<"b",3,5>> >>, '
           '<< <<"a",1,0>>, <<"a",1,5>>, <<"a",1,0-4>> >>}')
RUNSPECS = '{<<0,2,TRUE,100>>, <<1,2,TRUE,50>>, <<0,1,TRUE,25>>, <<0,3,FALSE,100>>, <<2,2,TRUE,50>>}'
SHAPE = ('MC_Shape == LET n == Len(hist\') IN\n'
         '   /\\ (n = 1 => hist\'[1].op = "Configure")\n'
         '   /\\ ((n > 1 /\\ n < L) => hist\'[n].op \\in {"PlanSet", "PlanDel", "PlanEnd"})\n'
         '   /\\ (n = L => hist\'[n].op = "Run")\n')


def expected_table(run):
    """Run observation -> {(ty, st, kind): {t: value}} with the declarative aggregates (values de-halved)"""
    tab = {}
    for rec in run["stats"]:
        t = rec["t100"] / 100.0
        for ty, row in rec["stats"].items():
            for st, c in row.items():
                tab.setdefault((ty, st, "count"), {})[t] = c["count"]
                if c["count"] > 0:
                    tab.setdefault((ty, st, "total"), {})[t] = c["total"] / 2.0
                    tab.setdefault((ty, st, "min"), {})[t] = c["min"] / 2.0
                    tab.setdefault((ty, st, "max"), {})[t] = c["max"] / 2.0
                    tab.setdefault((ty, st, "mean"), {})[t] = c["total"] / 2.0 / c["count"]
                else:
                    for k in ("total", "min", "max", "mean"):
                        tab.setdefault((ty, st, k), {})[t] = 0.0
    return tab


def _series(x):
    """pandas Series / dict (possibly with str keys) -> {float t: value}"""
    if hasattr(x, "to_dict"):
        x = x.to_dict()
    return {float(k): v for k, v in x.items()}


def _cmp_cells(exp, got, what):
    """exp, got: {t: value}.  A missing time counts as zero (the statement only promises zeros for empty states)."""
    bad = []
    for t, e in exp.items():
        g = None
        for k, v in got.items():
            if abs(k - t) < 1e-9:
                g = v
        if g is None:
            if abs(e) > 1e-12:
                bad.append((what + " t=%s" % t, e, "missing"))
        elif isinstance(g, float) and math.isnan(g):
            bad.append((what + " t=%s" % t, e, "NaN"))
        elif abs(g - e) > 1e-9 * max(1, abs(e)):
            bad.append((what + " t=%s" % t, e, g))
    for k in got:
        if not any(abs(k - t) < 1e-9 for t in exp):
            bad.append((what + " unexpected time", sorted(exp), k))
    return bad


def bptk_path(hist, rng, R):
    """drive the same population / script / run through bptk.run_scenarios in df, dict and json"""
    BPTK_Py = common.use_repo()
    cfg, run = hist[0], hist[-1]
    m = A.build(TYPES, 100, default_v=2)
    m._plan = [h for h in hist[1:-1]]
    m._max_ids = 8
    b = BPTK_Py.bptk()
    try:
        scen = {"runspecs": {"starttime": run["start"], "stoptime": run["stop"], "dt": run["dt100"] / 100.0},
                "properties": {}, "agents": [{"name": c[0], "count": c[1], "properties": A.prop_v(c[2])} for c in cfg["cfg"]]}
        import copy as _copy
        # two scenarios with the same population and script: one run_scenarios call runs both, each must report its own run
        # ... and a third one with no agents at all: it reports nothing, whatever its siblings collected, and the registered model
        # object (never run) collects nothing either
        empty = dict(_copy.deepcopy(scen), agents=[])
        b.register_scenario_manager({"smAbm": {"type": "abm", "model": m, "scenarios": {"sc": scen, "sc2": _copy.deepcopy(scen), "sc0": empty}}})
        tab = expected_table(run)
        populated = {(ty, st) for (ty, st, k), col in tab.items() if k == "count" and any(v > 0 for v in col.values())}
        bad = []
        # selections: subsets of agents / states / aggregate kinds (a state never populated in the whole run is not selected)
        agents = [ty for ty in TYPES if any((ty, st) in populated for st in A.STATES)]
        if not agents:
            return []
        sel_agents = rng.choice([agents, agents, agents[:1], agents[-1:]])
        states = [st for st in A.STATES if all((ty, st) in populated for ty in sel_agents)]
        if not states:
            return []
        sel_states = rng.choice([states, states, states[:1], states[-1:]])
        kinds = rng.choice([["total"], ["mean", "max"], ["min", "max", "mean", "total"], ["min"]])
        for fmt in ("df", "dict", "json"):
            b.reset_scenario_cache(scenario_manager="smAbm", scenario="sc") if False else None
            both = fmt == "df"
            res = b.run_scenarios(scenario_managers=["smAbm"], scenarios=["sc", "sc2"] if both else ["sc"], agents=sel_agents, agent_states=sel_states,
                                  agent_properties=["v"], agent_property_types=kinds, return_format=fmt)
            R.add("bptk_results_compared")
            if fmt == "json":
                res = json.loads(res) if isinstance(res, str) else res
            for scn in (("sc", "sc2") if both else ("sc",)):
              for ty in sel_agents:
                for st in sel_states:
                    for k in kinds:
                        exp = tab[(ty, st, k)]
                        try:
                            if fmt == "df":
                                got = _series(res["smAbm_%s_%s_%s_v_%s" % (scn, ty, st, k)])
                            else:
                                got = _series(res["smAbm"][scn]["agents"][ty][st]["properties"]["v"][k])
                        except Exception as e:
                            bad.append(("run_scenarios(%s) %s: %s/%s/%s" % (fmt, scn, ty, st, k), "present", "%s: %s" % (type(e).__name__, e)))
                            continue
                        bad += _cmp_cells(exp, got, "run_scenarios(%s) %s: %s_%s_v_%s" % (fmt, scn, ty, st, k))
            # counts (no properties selected)
            res = b.run_scenarios(scenario_managers=["smAbm"], scenarios=["sc"], agents=sel_agents, agent_states=sel_states, return_format=fmt)
            if fmt == "json":
                res = json.loads(res) if isinstance(res, str) else res
            for ty in sel_agents:
                for st in sel_states:
                    try:
                        if fmt == "df":
                            got = _series(res["smAbm_sc_%s_%s" % (ty, st)])
                        else:
                            got = _series(res["smAbm"]["sc"]["agents"][ty][st])
                    except Exception as e:
                        bad.append(("run_scenarios(%s) count %s/%s" % (fmt, ty, st), "present", "%s: %s" % (type(e).__name__, e)))
                        continue
                    bad += _cmp_cells(tab[(ty, st, "count")], got, "run_scenarios(%s) count %s_%s" % (fmt, ty, st))
        try:
            import contextlib, io
            with contextlib.redirect_stdout(io.StringIO()):        # ("No output data produced" is what this run is expected to say)
                b.run_scenarios(scenario_managers=["smAbm"], scenarios=["sc0"], agents=sel_agents, agent_states=sel_states, return_format="dict")
            seen = {}
            for t, per_type in b.get_scenario("smAbm", "sc0").data_collector.agent_statistics.items():
                for ty, per_state in per_type.items():
                    for st, cell in per_state.items():
                        if (cell.get("count", 0) if isinstance(cell, dict) else cell):
                            seen[(t, ty, st)] = cell.get("count") if isinstance(cell, dict) else cell
            if seen:
                bad.append(("scenario sc0 has no agents but reports statistics (collected by a sibling scenario)", {}, {str(k): v for k, v in list(seen.items())[:4]}))
        except Exception as e:
            bad.append(("run_scenarios of the scenario without agents", "runs", "%s: %s" % (type(e).__name__, e)))
        if m.data_collector.agent_statistics:
            bad.append(("the registered model object was never run but its data collector holds statistics", {}, {str(k): "..." for k in list(m.data_collector.agent_statistics)[:4]}))
        return bad
    finally:
        b.destroy()


def run(tier, replay_file=None):
    R = common.Run("C13", tier, "model_checking")
    quick = tier == "quick"
    rng = random.Random(common.seed())
    # 1. the incremental collector algorithm equals the declarative aggregates for every population / order
    mc = tlc.run("Abm", dict(consts(3 if quick else 4, 0, 0, '{"Create","Delete","SetState","SetVal"}'), L='0'),
                 invariants=INVS, view="View", spec="Spec", timeout=3000)
    if mc.violation:
        R.violation("spec:" + mc.violation, {"trace": mc.trace[:3000]})
    R.cov["states"], R.cov["transitions"] = mc.distinct, mc.generated
    # 2. spec -> code, direct: Model.statistics() after every step
    hs, _ = gen.histories("Abm", consts(3, 3, 0, '{"Create","SetState","SetVal","Delete","RunStep"}'), 4 if quick else 5)
    if quick:
        rng.shuffle(hs); hs = hs[:6000]
    # every history Create, <something planned for Model.end_round>, RunStep (the statistics are collected after end_round)
    he, _ = gen.histories("Abm", consts(2, 2, 2, '{"Create","PlanEnd","RunStep"}', ahead=0), 3)
    # the second numeric property: agents created with / without it, agents that give it to themselves while acting, the same
    # model reset and configured again with a population that has it
    hw, _ = gen.histories("Abm", dict(consts(4, 2, 2, '{"Create","PropW","PlanSet","Reset","Configure","RunStep"}', ahead=0,
                                             configs='{<< <<"a",1,2,5>> >>, << <<"a",1,0>> >>}'), Vals='{2, 5}'), 4)
    hw = [h for h in hw if h[-1]["op"] == "RunStep" and any("w" in x or x.get("kind") == "w" or (x["op"] == "Configure") for x in h)]
    hs = hs + he + (hw if not quick else rng.sample(hw, min(len(hw), 2500)))
    R.cov["second_property_histories"] = len(hw)
    R.cov["end_round_histories"] = len(he)
    h2, _ = gen.histories("Abm", consts(8, 60, 8, '{"Create","Delete","SetState","SetVal","PlanSet","PlanDel","PlanEnd","PropW","Configure","Reset","RunStep","Run"}', runspecs=RUNSPECS,
                                       configs='{<< <<"a",2,2,5>>, <<"b",1,0>> >>, << <<"a",1,0>>, <<"b",2,2,0-4>> >>}'),
                          20 if quick else 30, simulate=50 if quick else 500, seed=common.seed() + 3, cache=False)
    R.cov["bfs_histories"], R.cov["sim_histories"] = len(hs), len(h2)
    cells = 0
    for hist in hs + h2:
        bad = abm_replay.replay(hist, TYPES, 100, 2, {"stats", "q"}, max_ids=8)
        R.add("traces_validated_against_impl")
        for h in hist:
            if h["op"] == "RunStep":
                cells += sum(1 for ty in h["stats"].values() for c in ty.values() if c["count"] > 0)
            if h["op"] == "Run":
                cells += sum(1 for s in h["stats"] for ty in s["stats"].values() for c in ty.values() if c["count"] > 0)
        if bad:
            R.violation(bad["clause"], bad)
            if len(R.violations) >= 20:
                break
    R.cov["populated_cells_compared"] = cells
    # 2b. the same histories under the integer embedding x -> 2**53 * x + 1 (an Integer property): total / min / max are
    #     integers and must equal the population's aggregates exactly, the mean is their correctly rounded quotient
    A.EMB[0] = (2 ** 53, 1)
    try:
        he2 = [h for h in hs if sum(1 for x in h if x["op"] == "Create") >= 2]
        he2 = rng.sample(he2, min(len(he2), 1500 if quick else 30000))      # (thorough: a bounded sample of the enumerated histories)
        for hist in he2 + h2[:20]:
            bad = abm_replay.replay(hist, TYPES, 100, 2, {"stats"}, max_ids=8)
            R.add("integer_embedding_histories")
            if bad:
                bad["clause"] = "Integer property (values 2^53*x+1): " + bad["clause"]
                R.violation(bad["clause"], bad)
                if len(R.violations) >= 20:
                    break
    finally:
        A.EMB[0] = None
    # 3. spec -> code through bptk.run_scenarios (df / dict / json, selections)
    RS_T = '{<<0,2,TRUE,100>>, <<1,2,TRUE,50>>, <<0,1,TRUE,25>>, <<2,2,TRUE,50>>, <<1,3,TRUE,100>>}'   # bptk always collects
    h3, _ = gen.histories("Abm", consts(8, 60, 5, '{"Configure","PlanSet","PlanDel","PlanEnd","Run"}', runspecs=RS_T, configs=CONFIGS, ahead=3),
                          6, simulate=120 if quick else 1000, seed=common.seed() + 11, cache=False,
                          defs=SHAPE, constraints=("Bound",), extra_cfg={"action_constraints": ["MC_Shape"]})
    h3 = [h for h in h3 if h[0]["op"] == "Configure" and h[-1]["op"] == "Run" and all(x["op"].startswith("Plan") for x in h[1:-1])]
    R.cov["bptk_histories"] = len(h3)
    for hist in h3:
        try:
            bad = bptk_path(hist, rng, R)
        except common.Machinery:
            raise
        except Exception as e:      # the implementation failed where the specification has a run
            bad = [("bptk.run_scenarios raised", "results", "%s: %s" % (type(e).__name__, str(e)[:160]))]
        R.add("traces_validated_against_impl")
        if bad:
            c, e, g = bad[0]
            R.violation(c, {"clause": c, "expected": e, "observed": g, "more": [x[0] for x in bad[1:6]],
                            "history": [{k: v for k, v in x.items() if k not in ("q", "stats", "rounds", "handled")} for x in hist]})
            if len(R.violations) >= 20:
                break
    if not R.violations and (len(h3) < 10 or cells < 500):
        raise common.Machinery("too few cases generated (vacuous): %d bptk histories, %d cells" % (len(h3), cells))
    R.sample([{k: v for k, v in x.items() if k not in ("q", "rounds", "handled")} for x in h3[0]])
    # negative control
    ctl = None
    for hist in hs:
        for i, h in enumerate(hist):
            if h["op"] == "RunStep" and any(c["count"] > 0 for ty in h["stats"].values() for c in ty.values()):
                ctl = copy.deepcopy(hist)
                for ty in ctl[i]["stats"].values():
                    for c in ty.values():
                        if c["count"] > 0:
                            c["total"] += 1
                break
        if ctl:
            break
    if ctl is None or abm_replay.replay(ctl, TYPES, 100, 2, {"stats"}) is None:
        raise common.Machinery("negative control not rejected")
    R.assumptions += ["property values are multiples of 1/2 in {-2, 0, 1, 2.5}, and the integers 2^53*x+1 for x in {-4, 0, 2, 5}; populations <= 8 agents, 2 types, 2 states",
                      "a time missing from a returned table is read as zero; only states populated at some recorded time are selected"]
    return R.finish()
