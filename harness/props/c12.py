"""C12 - an agent-based run executes every step once, in order, for every agent."""
import copy
from .. import tlc, gen, common, abm_replay

TYPES = ["a", "b"]
INVS = ["QueueClean", "UniqueIds", "IdsBelowNext", "TypeMapExact", "AtMostOnce", "RightAgent", "RightStep"]
RUNSPECS = ('{<<0,0,TRUE,100>>, <<0,1,TRUE,50>>, <<1,2,FALSE,25>>, <<2,3,TRUE,100>>, <<0,1,FALSE,100>>, '
            '<<1,1,TRUE,10>>, <<0,2,TRUE,20>>, <<3,3,FALSE,50>>, <<0,0,FALSE,25>>}')
OPS = '{"Create","Delete","SetState","Plan","PlanDel","PlanNew","Run","RunStep"}'


def consts(maxids, maxev, maxsteps, maxplans, runspecs=RUNSPECS, ops=OPS, ahead=3):
    return dict(Types='{"a","b"}', Vals='{2}', Spawn='[t \\in {"a","b"} |-> <<>>]', Configs='{}',
                MaxIds=str(maxids), MaxEvents=str(maxev), MaxSteps=str(maxsteps), Delays='{0}', Dt100='100',
                RunSpecs=runspecs, MaxPlans=str(maxplans), PlanAhead=str(ahead), Ops=ops)


def run(tier, replay_file=None):
    R = common.Run("C12", tier, "model_checking")
    quick = tier == "quick"
    RS3 = '{<<0,0,TRUE,100>>, <<0,1,TRUE,50>>, <<1,1,FALSE,25>>}'
    R.cov["states"], R.cov["transitions"] = 0, 0
    for (mi, me, ms) in ([(3, 0, 6)] if quick else [(3, 0, 6), (2, 1, 4), (3, 0, 9)]):
        mc = tlc.run("Abm", dict(consts(mi, me, ms, 1, runspecs=RS3, ahead=1), L='0'),
                     invariants=INVS, view="ViewEv", spec="Spec", timeout=7200)
        if mc.violation:
            R.violation("spec:" + mc.violation, {"trace": mc.trace[:3000]})
        R.cov["states"] += mc.distinct
        R.cov["transitions"] += mc.generated
    # spec -> code
    hs, _ = gen.histories("Abm", consts(3, 1, 40, 1, ops='{"Create","Delete","PlanDel","Run","RunStep"}', ahead=1), 4 if quick else 5)
    h2, _ = gen.histories("Abm", consts(8, 10, 400, 8), 16 if quick else 30, simulate=60 if quick else 500,
                          seed=common.seed() + 7, cache=False)
    R.cov["bfs_histories"], R.cov["sim_histories"] = len(hs), len(h2)
    # time steps with three decimals (dt = 0.125, 0.025, 0.2 ...): the specification counts in 1/1000 (Unit overridden)
    RS1000 = '{<<0,1,TRUE,125>>, <<1,1,FALSE,125>>, <<0,0,TRUE,25>>, <<2,3,TRUE,250>>, <<0,1,TRUE,200>>}'
    c3 = dict(consts(6, 6, 200, 4, runspecs=RS1000), Unit='1000', Dt100='125')
    h3, _ = gen.histories("Abm", c3, 12 if quick else 20, simulate=30 if quick else 400, seed=common.seed() + 8, cache=False)
    R.cov["sim_histories_fine_dt"] = len(h3)
    n_ops, steps, runs = {}, 0, 0
    for hist, mx, unit in [(h, 3, 100) for h in hs] + [(h, 8, 100) for h in h2] + [(h, 6, 1000) for h in h3]:
        bad = abm_replay.replay(hist, TYPES, 125 if unit == 1000 else 100, 2, {"q", "calls", "handled"}, max_ids=mx, unit=unit)
        R.add("traces_validated_against_impl")
        for h in hist:
            n_ops[h["op"]] = n_ops.get(h["op"], 0) + 1
            if h["op"] == "Run":
                runs += 1; steps += len(h["rounds"])
            if h["op"] == "RunStep":
                steps += 1
        if bad:
            R.violation(bad["clause"], bad)
            if len(R.violations) >= 20:
                break
    R.cov["ops_replayed"], R.cov["steps_compared"], R.cov["runs_compared"] = n_ops, steps, runs
    # vacuity: every kind of operation occurs in the replayed behaviours (TLC's -coverage exhausts the heap on Abm.tla)
    for must in ("Create", "Delete", "Run", "RunStep", "PlanDel") + (() if quick else ("PlanNew",)):
        if not R.violations and n_ops.get(must, 0) == 0:
            raise common.Machinery("operation %s never occurs in the generated behaviours (vacuous)" % must)
    if not R.violations and (runs < 20 or steps < 200):
        raise common.Machinery("too few runs/steps in the generated behaviours (vacuous)")
    for hist in h2:
        if any(h["op"] == "Run" for h in hist):
            R.sample([{k: v for k, v in h.items() if k not in ("q", "stats")} for h in hist][:10])
            break
    ctl = None
    for hist in hs:
        for i, h in enumerate(hist):
            if h["op"] == "Run" and len(h["rounds"]) > 1:
                ctl = copy.deepcopy(hist); ctl[i]["rounds"].pop()
                break
        if ctl:
            break
    if ctl is None or abm_replay.replay(ctl, TYPES, 100, 2, {"calls"}) is None:
        raise common.Machinery("negative control not rejected")
    R.assumptions += ["agents deleted or created from inside act() are not required to (not) act in that same step; everybody else is",
                      "integer start <= stop in 0..3, dt in {1,.5,.25,.2,.1}; progress-bar widget path not driven"]
    return R.finish()
