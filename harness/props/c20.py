"""C20 - after a server crash, externalised sessions continue as if nothing happened."""
import copy, os
from .. import tlc, gen, common, srv_replay

DEV = '{"D16b_no_replay"}'


def consts(insts, stop, dev, ops, timeouts='{2,3}', ticks='{1,2}', maxnow=100000, kv='{0,2}', sv='{0,3}', scen='{"base","high"}'):
    return dict(Inst=insts, Timeouts=timeouts, Ticks=ticks, KVals=kv, StepVals=sv, Stop=str(stop), MaxNow=str(maxnow),
                Scen=scen, Ops=ops, Adapter="TRUE", Compress="FALSE", Kinds='{}', Creds='{}', Dev=dev)


def tear_at(frac=None, nbytes=None, garbage=False):
    def tear(srv, i):
        p = os.path.join(srv.state_dir, srv.uid(i) + ".json")
        with open(p) as f:
            data = f.read()
        if garbage:
            new = "\x00\x01 not json"
        elif nbytes is not None:
            new = data[:max(0, min(len(data) - 1, nbytes if nbytes >= 0 else len(data) + nbytes))]
        else:
            new = data[:int(len(data) * frac)]
        with open(p, "w") as f:
            f.write(new)
    return tear


TEARS = [("empty", tear_at(nbytes=0)), ("outer-json-prefix", tear_at(nbytes=12)), ("half", tear_at(frac=0.5)),
         ("inside-inner-json", tear_at(frac=0.8)), ("last-bytes-missing", tear_at(nbytes=-3)), ("garbage", tear_at(garbage=True))]


def run(tier, replay_file=None):
    R = common.Run("C20", tier, "model_checking")
    quick = tier == "quick"
    OPS_X = '{"Start","Begin","Step","Results","Crash","Tear","Tick","Metrics"}'
    mc = tlc.run("Server", dict(consts('{"i1","i2"}' if not quick else '{"i1"}', 2, '{}', OPS_X, timeouts='{2}', ticks='{2}', maxnow=4, kv='{0,2}', sv='{0,3}', scen='{"base"}'), L='0'),
                 invariants=["Continuity", "AliveOK", "GoneOK", "RoundTrip"], view="View", spec="Spec", timeout=3000)
    if mc.violation:
        R.violation("spec:" + mc.violation, {"trace": mc.trace[:3000]})
    R.cov["states"], R.cov["transitions"] = mc.distinct, mc.generated
    dv = tlc.run("Server", dict(consts('{"i1"}', 2, DEV, OPS_X, timeouts='{2}', ticks='{2}', maxnow=4, scen='{"base"}'), L='0'),
                 invariants=["Continuity"], view="View", spec="Spec", timeout=3000)
    if dv.violation != "Continuity":
        raise common.Machinery("Dev={D16b_no_replay} does not violate Continuity in the spec: finding mis-modelled")
    known_total, crashes, tears = {}, 0, 0
    # (a) every crash point of every short session history of one instance (exhaustive in k)
    hs, _ = gen.histories("Server", consts('{"i1"}', 4, DEV, '{"Start","Begin","Step","Crash"}', kv='{0,2}', sv='{0,3}', scen='{"base"}'),
                          5 if quick else 6)
    hs = [h for h in hs if any(x["op"] == "Crash" for x in h)]
    # (b) long random histories over two instances with torn files, sweeps, run-steps
    h2, _ = gen.histories("Server", consts('{"i1","i2"}', 4, DEV, '{"Start","Begin","Step","Steps","Results","Crash","Tear","Tick","Metrics","End"}'),
                          18 if quick else 30, simulate=40 if quick else 500, seed=common.seed() + 5, cache=False)
    R.cov["bfs_histories"], R.cov["sim_histories"] = len(hs), len(h2)
    R.cov["exhaustive"] = True
    for n, hist in enumerate(hs + h2):
        known = []
        name, tear = TEARS[n % len(TEARS)]
        bad = srv_replay.replay(hist, stop=4, adapter=True, base_constants=True, known=known, tear=tear, probe=True)
        R.add("traces_validated_against_impl")
        crashes += sum(1 for x in hist if x["op"] == "Crash")
        tears += sum(1 for x in hist if x["op"] == "Tear")
        for k in known:
            known_total[k[0]] = known_total.get(k[0], 0) + 1
        if bad:
            bad["tear_class"] = name
            R.violation(bad["clause"], bad)
            if len(R.violations) >= 20:
                break
    # (a2) every crash point again on reference models whose clock starts at time 0 (the Model default) and at 0.5 with a decimal
    # dt: the externalised clock of a session that has not stepped yet is 0.0
    for g in ((0.0, 1.0), (0.5, 0.25)):
        if R.violations:
            break
        first = [h for h in hs if any(a["op"] == "Begin" and b["op"] == "Crash" for a, b in zip(h, h[1:]))]     # lost before the first step
        rest = [h for h in hs if h not in first]
        if quick:
            import random as _r0
            rest = _r0.Random(common.seed() + 6).sample(rest, min(len(rest), 150))
        for hist in first + rest:
            known = []
            bad = srv_replay.replay(hist, stop=4, adapter=True, base_constants=True, known=known, probe=True, grid=g)
            R.add("traces_validated_against_impl"); R.add("crash_point_histories_other_grids")
            crashes += sum(1 for x in hist if x["op"] == "Crash")
            for k in known:
                known_total[k[0]] = known_total.get(k[0], 0) + 1
            if bad:
                bad["grid"] = {"start": g[0], "dt": g[1]}
                R.violation(bad["clause"], bad)
                if len(R.violations) >= 20:
                    break
    # (c) the compressing adapter: instances externalised before any session exists, server lost, restart, then used
    # (generated with the faithful model of the compressed format too, so that KF-C19-1 - setting-less steps vanish from the
    # restored settings log - is recognised by its own match rule and nothing else is)
    h3, _ = gen.histories("Server", dict(consts('{"i1","i2"}', 4, '{"D16b_no_replay","D15_compress_lossy"}', '{"Start","SaveState","Crash","Begin","Step","Metrics"}', kv='{0,2}', sv='{0}', scen='{"base"}',
                                                timeouts='{3}', ticks='{1}'), Compress="TRUE"), 5 if quick else 6)
    h3 = [h for h in h3 if any(x["op"] == "Crash" for x in h)]
    import random as _r
    h3 = _r.Random(common.seed()).sample(h3, min(len(h3), 300 if quick else 15000))       # (75 219 such histories of length 6)
    R.cov["compressing_adapter_histories"] = len(h3)
    for hist in h3:
        known = []
        bad = srv_replay.replay(hist, stop=4, adapter=True, compress=True, base_constants=True, known=known, probe=True)
        R.add("traces_validated_against_impl")
        crashes += sum(1 for x in hist if x["op"] == "Crash")
        for k in known:
            known_total[k[0]] = known_total.get(k[0], 0) + 1
        if bad:
            bad["adapter"] = "FileAdapter(compress=True)"
            R.violation(bad["clause"], bad)
            if len(R.violations) >= 20:
                break
    # (d) a stream-steps response read result by result and abandoned by the client, then the server is lost: every such history
    SHAPE_D = ('MC_StreamCrash == LET n == Len(hist\') h == hist\'[n] IN\n'
               '   /\\ (n = 1 => h.op = "Start") /\\ (n = 2 => h.op = "Begin" /\\ h.status = 200) /\\ (n = 3 => h.op = "StreamOpen")\n'
               '   /\\ (n \\in {4, 5} => h.op \\in {"StreamNext", "StreamClose", "Step"}) /\\ (n = 6 => h.op \\in {"Crash", "StreamClose"})\n'
               '   /\\ (n = 7 => h.op \\in {"Crash", "Step"}) /\\ (n = 8 => h.op \\in {"Step", "Results"})\n')
    h4, _ = gen.histories("Server", consts('{"i1"}', 4, DEV, '{"Start","Begin","Stream","Step","Results","Crash"}', kv='{0,2}', sv='{0,3}', scen='{"base"}',
                                           timeouts='{3}', ticks='{1}'), 8, defs=SHAPE_D, extra_cfg={"action_constraints": ["MC_StreamCrash"]})
    h4 = [h for h in h4 if any(x["op"] == "Crash" for x in h)]
    R.cov["abandoned_stream_histories"] = len(h4)
    if quick:
        import random as _r2
        h4 = _r2.Random(common.seed() + 3).sample(h4, min(len(h4), 150))
    for hist in h4:
        known = []
        bad = srv_replay.replay(hist, stop=4, adapter=True, base_constants=True, known=known, probe=True)
        R.add("traces_validated_against_impl")
        crashes += sum(1 for x in hist if x["op"] == "Crash")
        for k in known:
            known_total[k[0]] = known_total.get(k[0], 0) + 1
        if bad:
            bad["family"] = "stream-steps abandoned by the client, then a crash"
            R.violation(bad["clause"], bad)
            if len(R.violations) >= 20:
                break
    # (e) the process lost in the middle of writing an instance's state (run-step answered by nobody), at each truncation class of
    # the text written so far; then the session goes on, or a new one is begun, with and without a further loss: every history
    SHAPE_E = ('MC_WriteLost == LET n == Len(hist\') h == hist\'[n] IN\n'
               '   /\\ (n = 1 => h.op = "Start") /\\ (n = 2 => h.op = "Begin" /\\ h.status = 200) /\\ (n \\in {3, 4} => h.op = "Step")\n'
               '   /\\ (n = 5 => h.op = "StepLost") /\\ (n = 6 => h.op \\in {"Begin", "Step"}) /\\ (n = 7 => h.op \\in {"Crash", "Step"})\n'
               '   /\\ (n = 8 => h.op \\in {"Step", "Results"})\n')
    h5, _ = gen.histories("Server", consts('{"i1"}', 4, DEV, '{"Start","Begin","Step","Results","Crash","Tear","StepLost"}', kv='{0,2}', sv='{3}', scen='{"base"}',
                                           timeouts='{3}', ticks='{1}'), 8, defs=SHAPE_E, extra_cfg={"action_constraints": ["MC_WriteLost"]})
    R.cov["process_lost_inside_a_write_histories"] = len(h5)
    if quick:
        import random as _r3
        h5 = _r3.Random(common.seed() + 4).sample(h5, min(len(h5), 200))
    lost_placed = 0
    for hist in h5:
        known, obs = [], []
        bad = srv_replay.replay(hist, stop=4, adapter=True, base_constants=True, known=known, probe=True, observe=obs)
        R.add("traces_validated_against_impl")
        lost_placed += sum(1 for o in obs if o[1] == "StepLost")
        crashes += sum(1 for x in hist if x["op"] in ("Crash", "StepLost"))
        for k in known:
            known_total[k[0]] = known_total.get(k[0], 0) + 1
        if bad:
            bad["family"] = "process lost inside the externalisation of a run-step"
            R.violation(bad["clause"], bad)
            if len(R.violations) >= 20:
                break
    R.cov["write_faults_placed"] = lost_placed
    # (f) two stepping requests in flight at the same time: whatever the schedule, when both have been answered the store holds the
    # session they were answered from (otherwise a server lost right then would resume one acknowledged step earlier)
    from . import c18
    R.cov["concurrent_request_schedules_store_checked"] = c18.store_race(R, quick)
    if not quick and h2:
        # torn write at every byte offset of the state file, for one history with a Tear followed by a Crash
        for hist in h2:
            ops = [x["op"] for x in hist]
            if "Tear" in ops and "Crash" in ops[ops.index("Tear"):]:
                for off in range(0, 1500, 7):
                    bad = srv_replay.replay(hist, stop=4, adapter=True, base_constants=True, known=[], tear=tear_at(nbytes=off))
                    R.add("byte_offsets_torn")
                    if bad:
                        bad["tear_offset"] = off
                        R.violation(bad["clause"], bad)
                        break
                break
    R.cov["crashes_replayed"], R.cov["torn_files"], R.cov["known_matches"] = crashes, tears, known_total
    if not R.violations and (crashes < 50 or tears < 5):
        raise common.Machinery("too few crash points / torn files generated (vacuous)")
    for e in R.findings.open_for("C20") + [e for e in R.findings.entries if e.get("status") == "open" and "C20" in e.get("also", [])]:
        if known_total.get(e["dev"]):
            R.known_finding(e["id"], e["what"][:160], known_total[e["dev"]])
    R.sample([{a: b for a, b in h.items() if a not in ("rows", "want", "row")} for h in hs[len(hs) // 2]])
    R.assumptions += ["a crash is modelled as dropping the server object and constructing a new one on the same state directory",
                      "a process lost while writing is modelled by the file contents it can leave (truncation classes; every offset in the thorough tier)"]
    return R.finish()
