"""Deterministic schedules for concurrent request threads (C18, C08).

Request threads run under sys.settrace; they park *before* executing an anchor line (the linearization
points of the lock protocol) and are released one at a time by the controller, so the interleaving is
forced, never raced.  The controller records one event per executed segment (anchor .. next anchor)
with the lock flag and session clock sampled while every thread is parked.

Finer grain inside the atomic test-and-set: while a thread is inside bptk.try_lock every source line it
executes (in try_lock itself and in whatever it calls) is a scheduling point of kind "L"; these are
implementation-internal steps with no event of their own - the event T is recorded when try_lock has
returned.  So that a thread can be parked while it holds the mutex that serialises try_lock, the mutexes
of BPTK_Py.bptk are replaced by cooperative ones: a thread that cannot take the mutex parks (kind "B")
instead of blocking, and retries when the controller releases it."""
import importlib, re, sys, threading, types

ANCHORS = [  # (module, substring, action name)
    ("BPTK_Py.server.bptkServer", "instance.try_lock()", "T"),
    ("BPTK_Py.server.bptkServer", "instance.is_locked()", "C"),
    ("BPTK_Py.server.bptkServer", "instance.lock()", "K"),
    ("BPTK_Py.server.bptkServer", "instance.unlock()", "U"),
    ("BPTK_Py.bptk", 'step = self.session_state["step"]', "R"),
    ("BPTK_Py.bptk", 'self.session_state["step"]=', "W"),
]
SAVE_ANCHORS = [  # externalising the session (only reached on a server with an external state adapter)
    ("BPTK_Py.server.bptkServer", "session_state = copy.deepcopy(instance['instance'].session_state)", "S"),
    ("BPTK_Py.externalstateadapter.externalStateAdapter", 'path = os.path.join(self.path, str(state.instance_id) + ".json")', "P"),
]
INTERNAL = {"try_lock"}          # functions of BPTK_Py.bptk whose execution is scheduled line by line
_tls = threading.local()         # .worker: the Worker a request thread belongs to
_RealLock = threading.Lock


class Machinery(Exception):
    pass


class CoopLock:
    """a mutex whose contention is a scheduling decision: a worker thread that finds it taken parks and retries"""

    def __init__(self):
        self._l = _RealLock()

    def acquire(self, blocking=True, timeout=-1):
        w = getattr(_tls, "worker", None)
        if w is None:
            return self._l.acquire(blocking, timeout)
        while True:
            if self._l.acquire(False):
                return True
            if not blocking:
                return False
            w._park("B")

    def release(self):
        self._l.release()

    def locked(self):
        return self._l.locked()

    def __enter__(self):
        self.acquire()
        return self

    def __exit__(self, *a):
        self.release()


class TracedState(dict):
    """the session state of the instance under test: accesses to the advisory lock flag made inside try_lock are reported to
    the controller, because they - not the return of try_lock - are the linearization points of the test-and-set"""

    def __init__(self, data, ctl, key="lock"):
        super().__init__(data)
        self._ctl, self._key = ctl, key

    def __getitem__(self, k):
        v = dict.__getitem__(self, k)
        if k == self._key:
            w = getattr(_tls, "worker", None)
            if w is not None and w.inside and not w.in_hook:
                w.in_hook = True
                try:
                    self._ctl.flag_read(w)
                finally:
                    w.in_hook = False
        return v

    def get(self, k, default=None):
        return self[k] if k in self else default

    # copies and pickles of the session state (externalisation) are plain dictionaries
    def __deepcopy__(self, memo):
        import copy
        return {copy.deepcopy(k, memo): copy.deepcopy(v, memo) for k, v in dict.items(self)}

    def __copy__(self):
        return dict(dict.items(self))

    def __reduce__(self):
        return (dict, (dict(dict.items(self)),))

    def __setitem__(self, k, v):
        dict.__setitem__(self, k, v)
        if k == self._key:
            w = getattr(_tls, "worker", None)
            if w is not None and w.inside and not w.in_hook:
                w.in_hook = True
                try:
                    self._ctl.flag_written(w)
                finally:
                    w.in_hook = False


def install_coop_locks():
    """module-level mutexes of BPTK_Py.bptk and mutexes it creates later become cooperative"""
    mod = importlib.import_module("BPTK_Py.bptk")
    if getattr(mod, "_verif_coop", False):
        return
    lock_type = type(_RealLock())
    for name, val in list(vars(mod).items()):
        if isinstance(val, lock_type):
            setattr(mod, name, CoopLock())
    shim = types.SimpleNamespace(**{k: getattr(threading, k) for k in dir(threading) if not k.startswith("__")})
    shim.Lock = CoopLock
    if isinstance(getattr(mod, "threading", None), types.ModuleType):
        mod.threading = shim
    mod._verif_coop = True


def anchor_map(anchors=None, required=None):
    amap, found = {}, set()
    for modname, sub, act in (anchors or ANCHORS):
        mod = importlib.import_module(modname)
        fn = mod.__file__
        with open(fn) as f:
            for no, line in enumerate(f, 1):
                code = line.split("#")[0]
                if (sub.startswith("re:") and re.search(sub[3:], code)) or (not sub.startswith("re:") and (sub in code.replace(" ", "") or sub in code)):
                    amap[(fn, no)] = act
                    found.add(act)
    if required is not None:
        if not required <= found:
            raise Machinery("anchor lines not found in the sources: %s" % sorted(found))
    elif not ({"R", "W", "U"} <= found and ({"T"} <= found or {"C", "K"} <= found)):
        raise Machinery("anchor lines not found in the sources: %s" % sorted(found))
    return amap


class Worker:
    def __init__(self, ctl, rid, fn, gated=False):
        self.ctl, self.rid, self.fn, self.gated = ctl, rid, fn, gated
        self.go = threading.Event()
        self.parked_at = None       # action name of the anchor it is parked at
        self.finished = False
        self.seen = {}              # frame id -> internal lines already used as a scheduling point in that call
        self.in_hook = False
        self.inside = []            # frame ids of the running calls of INTERNAL functions
        self.result = None
        self.error = None
        self.thread = threading.Thread(target=self._run, daemon=True)

    def _run(self):
        _tls.worker = self
        sys.settrace(self._global_trace)
        try:
            if self.gated:
                self._park("G")     # a request without anchors of its own runs as one step, when the controller says so
            self.result = self.fn()
        except BaseException as e:       # noqa
            self.error = e
        finally:
            sys.settrace(None)
            _tls.worker = None
            with self.ctl.cv:
                self.finished = True
                self.parked_at = None
                self.ctl.cv.notify_all()

    def _park(self, act):
        with self.ctl.cv:
            self.parked_at = act
            self.go.clear()
            self.ctl.cv.notify_all()
        if not self.go.wait(timeout=60):
            raise Machinery("worker %s never released" % self.rid)

    def _global_trace(self, frame, event, arg):
        fn = frame.f_code.co_filename
        if (fn, frame.f_code.co_name) in self.ctl.internal_set and (self.ctl.park_filter is None or self.inside or self.ctl.park_filter(frame)):
            self.inside.append(id(frame))
            return self._internal_trace
        if self.inside and "BPTK_Py" in fn:
            return self._internal_trace         # something try_lock calls
        if fn in self.ctl.files:
            return self._local_trace
        return None

    def _internal_trace(self, frame, event, arg):
        if event == "return":
            self.seen.pop(id(frame), None)
            if self.inside and self.inside[-1] == id(frame):
                self.inside.pop()
        elif event == "line" and self.inside:
            seen = self.seen.setdefault(id(frame), set())
            if frame.f_lineno not in seen:      # (CPython reports the line of a `with` statement again when the block is left)
                seen.add(frame.f_lineno)
                self._park("L")
        return self._internal_trace

    def _local_trace(self, frame, event, arg):
        if event == "line":
            act = self.ctl.amap.get((frame.f_code.co_filename, frame.f_lineno))
            if act is not None and not self.gated and (self.ctl.park_filter is None or self.ctl.park_filter(frame)):
                self._park(act)
        return self._local_trace


class Controller:
    def __init__(self, probe, anchors=None, required=None, park_filter=None, internal=None, extra_anchors=None):
        """extra_anchors: further anchor lines next to the default ones (e.g. SAVE_ANCHORS);
        internal: [(module, function name)] whose execution is scheduled line by line (default for the lock protocol of the
        server: bptk.try_lock)"""
        self.park_filter = park_filter
        self.amap = anchor_map(anchors, required)
        if extra_anchors:
            self.amap.update(anchor_map(extra_anchors, required=set()))
        self.files = {fn for fn, _ in self.amap}
        if internal is None:
            internal = [("BPTK_Py.bptk", name) for name in INTERNAL] if anchors is None else []
        self.internal_set = {(importlib.import_module(mod).__file__, name) for mod, name in internal}
        self.internal = bool(self.internal_set)
        if anchors is None:
            install_coop_locks()
        self.cv = threading.Condition()
        self.workers = {}
        self.events = []        # [r, act, lock, clock]
        self.probe = probe      # () -> (lock, clock)
        self._last_act = {}
        self._last_state = probe()
        self._pending = {}      # rid -> the action whose internal lines are still running
        self._inflight = {}     # rid -> the anchor action it was last released from
        self._lin_done = set()  # requests whose pending event was already recorded at the linearization point
        self._lin_read = {}     # rid -> (position in events, state) at its last read of the lock flag inside try_lock
        self.no_loop = set()    # requests that have no stepping loop at all (rejected bodies): no synthetic loop-exit Read

    def spawn(self, rid, fn, gated=False):
        w = Worker(self, rid, fn, gated)
        self.workers[rid] = w
        w.thread.start()
        self._wait(w)

    def _wait(self, w):
        with self.cv:
            if not self.cv.wait_for(lambda: w.finished or w.parked_at is not None, timeout=60):
                raise Machinery("worker %s neither parked nor finished" % w.rid)

    def _release(self, w):
        with self.cv:
            w.parked_at = None
        w.go.set()
        self._wait(w)

    def runnable(self):
        return [r for r, w in self.workers.items() if not w.finished]

    # called by a worker thread (all others are parked) when it touches the lock flag inside try_lock
    def flag_read(self, w):
        self._lin_read[w.rid] = (len(self.events), self.probe())        # a refusal is decided here

    def flag_written(self, w):
        if w.rid in self._lin_done:
            return
        lock, clock = self.probe()                                      # a successful test-and-set takes effect here
        self.events.append({"r": w.rid, "act": self._inflight.get(w.rid, "T"), "lock": lock, "clock": clock})
        self._last_act[w.rid] = self.events[-1]["act"]
        self._last_state = (lock, clock)
        self._lin_done.add(w.rid)

    def advance(self, rid, fine=False):
        """let request rid execute the segment from its anchor to its next anchor (or to completion).
        fine=False: a try_lock is one step (its internal lines are run through); fine=True: each internal line is a step"""
        w = self.workers[rid]
        if w.finished:
            return False
        act = w.parked_at
        if act not in ("L", "B"):
            self._inflight[rid] = act
        self._release(w)
        if act in ("L", "B"):
            act = self._pending.get(rid, "T")
        if w.parked_at in ("L", "B"):
            # inside try_lock: the event is recorded when the thread has left it
            self._pending[rid] = act
            spins = 0
            while not fine and w.parked_at in ("L", "B"):
                if w.parked_at == "B":
                    spins += 1
                    if spins > 3:
                        return True         # the mutex is held by a parked thread: somebody else has to move first
                self._release(w)
            if w.parked_at in ("L", "B"):
                return True
        self._pending.pop(rid, None)
        if rid in self._lin_done:           # its event was recorded at its linearization point already
            self._lin_done.discard(rid)
            self._lin_read.pop(rid, None)
            return True
        if act == "T" and rid in self._lin_read:
            # try_lock returned without writing the flag: it was decided when the flag was read; the event belongs there
            idx, (lock, clock) = self._lin_read.pop(rid)
            self.events.insert(idx, {"r": rid, "act": "T", "lock": lock, "clock": clock})
            self._last_act[rid] = "T"
            return True
        lock, clock = self.probe()
        if act == "R" and w.parked_at != "W":
            # run_step returned "Stoptime reached" right after reading the clock: the spec's Write is a no-op there
            self.events.append({"r": rid, "act": "R", "lock": lock, "clock": clock})
            self.events.append({"r": rid, "act": "W", "lock": lock, "clock": clock})
        else:
            if act in ("U", "S") and self._last_act.get(rid) in ("W", "T", "K") and rid not in self.no_loop:
                # the loop-exit test has no anchor of its own (for / while condition): the spec's Read with More = FALSE
                self.events.append({"r": rid, "act": "R", "lock": self._last_state[0], "clock": self._last_state[1]})
            self.events.append({"r": rid, "act": act, "lock": lock, "clock": clock})
        self._last_act[rid] = self.events[-1]["act"]
        self._last_state = (lock, clock)
        return True

    def run(self, schedule, fine=False):
        for rid in schedule:
            if rid in self.workers:
                self.advance(rid, fine)
        guard = 0
        while self.runnable():
            for rid in list(self.runnable()):
                self.advance(rid, fine)
            guard += 1
            if guard > 10000:
                raise Machinery("schedule does not terminate")
        for w in self.workers.values():
            w.thread.join(timeout=10)
