"""Deterministic schedules for concurrent stepping requests (C18).

Request threads run under sys.settrace; they park *before* executing an anchor line (the linearization
points of the lock protocol) and are released one at a time by the controller, so the interleaving is
forced, never raced.  The controller records one event per executed segment (anchor .. next anchor)
with the lock flag and session clock sampled while every thread is parked."""
import importlib, json, re, sys, threading

ANCHORS = [  # (module, substring, action name)
    ("BPTK_Py.server.bptkServer", "instance.try_lock()", "T"),
    ("BPTK_Py.server.bptkServer", "instance.is_locked()", "C"),
    ("BPTK_Py.server.bptkServer", "instance.lock()", "K"),
    ("BPTK_Py.server.bptkServer", "instance.unlock()", "U"),
    ("BPTK_Py.bptk", 'step = self.session_state["step"]', "R"),
    ("BPTK_Py.bptk", 'self.session_state["step"]=', "W"),
]


class Machinery(Exception):
    pass


def anchor_map(anchors=None, required=None):
    amap, found = {}, set()
    for modname, sub, act in (anchors or ANCHORS):
        mod = importlib.import_module(modname)
        fn = mod.__file__
        with open(fn) as f:
            for no, line in enumerate(f, 1):
                code = line.split("#")[0]
                if (sub.startswith("re:") and re.search(sub[3:], code)) or (not sub.startswith("re:") and (sub in code.replace(" ", "") or sub in code)):
                    amap[(fn, no)] = act
                    found.add(act)
    if required is not None:
        if not required <= found:
            raise Machinery("anchor lines not found in the sources: %s" % sorted(found))
    elif not ({"R", "W", "U"} <= found and ({"T"} <= found or {"C", "K"} <= found)):
        raise Machinery("anchor lines not found in the sources: %s" % sorted(found))
    return amap


class Worker:
    def __init__(self, ctl, rid, fn):
        self.ctl, self.rid, self.fn = ctl, rid, fn
        self.go = threading.Event()
        self.parked_at = None       # action name of the anchor it is parked at
        self.finished = False
        self.result = None
        self.error = None
        self.thread = threading.Thread(target=self._run, daemon=True)

    def _run(self):
        sys.settrace(self._global_trace)
        try:
            self.result = self.fn()
        except BaseException as e:       # noqa
            self.error = e
        finally:
            sys.settrace(None)
            with self.ctl.cv:
                self.finished = True
                self.parked_at = None
                self.ctl.cv.notify_all()

    def _global_trace(self, frame, event, arg):
        if frame.f_code.co_filename in self.ctl.files:
            return self._local_trace
        return None

    def _local_trace(self, frame, event, arg):
        if event == "line":
            act = self.ctl.amap.get((frame.f_code.co_filename, frame.f_lineno))
            if act is not None and (self.ctl.park_filter is None or self.ctl.park_filter(frame)):
                with self.ctl.cv:
                    self.parked_at = act
                    self.go.clear()
                    self.ctl.cv.notify_all()
                if not self.go.wait(timeout=60):
                    raise Machinery("worker %s never released" % self.rid)
        return self._local_trace


class Controller:
    def __init__(self, probe, anchors=None, required=None, park_filter=None):
        self.park_filter = park_filter
        self.amap = anchor_map(anchors, required)
        self.files = {fn for fn, _ in self.amap}
        self.cv = threading.Condition()
        self.workers = {}
        self.events = []        # [r, act, lock, clock]
        self.probe = probe      # () -> (lock, clock)
        self._last_act = {}
        self._last_state = probe()

    def spawn(self, rid, fn):
        w = Worker(self, rid, fn)
        self.workers[rid] = w
        w.thread.start()
        self._wait(w)

    def _wait(self, w):
        with self.cv:
            if not self.cv.wait_for(lambda: w.finished or w.parked_at is not None, timeout=60):
                raise Machinery("worker %s neither parked nor finished" % w.rid)

    def runnable(self):
        return [r for r, w in self.workers.items() if not w.finished]

    def advance(self, rid):
        """let request rid execute the segment from its anchor to its next anchor (or to completion)"""
        w = self.workers[rid]
        if w.finished:
            return False
        act = w.parked_at
        with self.cv:
            w.parked_at = None
        w.go.set()
        self._wait(w)
        lock, clock = self.probe()
        if act == "R" and w.parked_at != "W":
            # run_step returned "Stoptime reached" right after reading the clock: the spec's Write is a no-op there
            self.events.append({"r": rid, "act": "R", "lock": lock, "clock": clock})
            self.events.append({"r": rid, "act": "W", "lock": lock, "clock": clock})
        else:
            if act == "U" and self._last_act.get(rid) in ("W", "T", "K"):
                # the loop-exit test has no anchor of its own (for / while condition): the spec's Read with More = FALSE
                self.events.append({"r": rid, "act": "R", "lock": self._last_state[0], "clock": self._last_state[1]})
            self.events.append({"r": rid, "act": act, "lock": lock, "clock": clock})
        self._last_act[rid] = self.events[-1]["act"]
        self._last_state = (lock, clock)
        return True

    def run(self, schedule):
        for rid in schedule:
            if rid in self.workers:
                self.advance(rid)
        guard = 0
        while self.runnable():
            for rid in list(self.runnable()):
                self.advance(rid)
            guard += 1
            if guard > 10000:
                raise Machinery("schedule does not terminate")
        for w in self.workers.values():
            w.thread.join(timeout=10)
