"""Expression families out of spec/Expr.tla (shared by C02 and C03)."""
import hashlib, json, os
from . import tlc
from .common import VERIF

ENVS = [{"a": (7, 1), "b": (3, 1), "c": (2, 1)}, {"a": (5, 2), "b": (1, 2), "c": (2, 1)}, {"a": (2, 1), "b": (5, 1), "c": (3, 1)},
        {"a": (2, 1), "b": (3, 1), "c": (2, 1)}, {"a": (13, 1), "b": (7, 1), "c": (4, 1)},
        {"a": (3, 1), "b": (2, 1), "c": (5, 1)}]       # b even: the sign of a negative base survives only if the base stays grouped
ENVS_TLA = "<< " + ", ".join("[a |-> <<%d,%d>>, b |-> <<%d,%d>>, c |-> <<%d,%d>>]" % (e["a"] + e["b"] + e["c"]) for e in ENVS) + " >>"
DSL_OPS = '{"+","-","*","/","**","%",">","<","<=",">=","==","!="}'


XMILE_OPS = '{"+","-","*","/","**","%",">","<","<=",">=","==","!="}'


def family(fam, binops=DSL_OPS, fn1='{"abs","sqrt","round","exp","factorial","runspec"}', fn2='{"min","max","combinations","permutations"}', cache=True, timeout=3000, mod_nonneg=False):
    consts = dict(ModNonNeg="TRUE" if mod_nonneg else "FALSE", Envs=ENVS_TLA, Family='"%s"' % fam, BinOps=binops, Fn1=fn1, Fn2=fn2)
    h = hashlib.sha256()
    for fn in ("Expr.tla", "Rat.tla"):
        with open(os.path.join(tlc.SPEC_DIR, fn), "rb") as f:
            h.update(f.read())
    h.update(json.dumps(consts, sort_keys=True).encode())
    path = os.path.join(VERIF, "cache", "Expr_%s.json" % h.hexdigest()[:24])
    if cache and os.path.exists(path):
        with open(path) as f:
            d = json.load(f)
        return d["trees"], d["stats"]
    r = tlc.run("Expr", consts, invariants=["Emit", "Separates"], workers=8, timeout=timeout)
    if r.violation:
        raise tlc.TlcError("Expr enumeration violated %s" % r.violation)
    stats = {"distinct": r.distinct, "generated": r.generated, "wall": round(r.wall, 1)}
    if cache:
        os.makedirs(os.path.dirname(path), exist_ok=True)
        with open(path + ".tmp", "w") as f:
            json.dump({"trees": r.emitted, "stats": stats}, f)
        os.replace(path + ".tmp", path)
    return r.emitted, stats
