"""Runs the file-channel replay of one Scenario.tla history in a fresh process (bptk keeps process-wide state in
mutable default arguments, which can mask or fake file-reading behaviour across instances)."""
import json, os, sys
sys.path.insert(0, os.path.dirname(os.path.dirname(os.path.abspath(__file__))))


def main():
    from harness import scn_replay
    with open(sys.argv[1]) as f:
        hists = json.load(f)
    out = []
    for h in hists[:1]:
        out.append(scn_replay.replay_files(h, sys.argv[2] if len(sys.argv) > 2 else "split"))
    print("RESULT " + json.dumps(out, default=str))


if __name__ == "__main__":
    main()
