"""Replay adapter for spec/Server.tla: a real BptkServer (Flask test client) over the reference SD model,
under a controlled clock, optionally with a FileAdapter on a scratch directory."""
import datetime as _dt, importlib, json, os, shutil, tempfile
from .common import use_repo, Machinery

UNITS = ["seconds", "minutes", "hours", "days", "weeks", "milliseconds", "microseconds"]


class Clock:
    """stands in for the `datetime` module inside the server: now() is scripted"""
    def __init__(self):
        self.t = _dt.datetime(2030, 1, 1, 12, 0, 0)
        self.timedelta = _dt.timedelta
        outer = self

        class _DT(_dt.datetime):
            @classmethod
            def now(cls, tz=None):
                return outer.t
        self.datetime = _DT

    def advance(self, **kw):
        self.t = self.t + _dt.timedelta(**kw)


K2 = 7.0     # constant of the shadow manager "sm2" (never touched by settings)
GRID = [1.0, 1.0]   # (start, dt) of the reference model of the current Srv; Server.tla counts steps 1, 2, 3, ... and integrates per step


NAMES = {"base": "base", "high": "high"}      # scenario names of the specification -> names the current Srv registers them under


def nm(sc):
    return NAMES.get(sc, sc)


def spec_t(t):
    """model time -> the step number the specification uses (start -> 1)"""
    return 1.0 + (float(t) - GRID[0]) / GRID[1]


def spec_s(v):
    return float(v) / GRID[1]


def make_factory(stop, base_constants=False, two=False, grid=(1.0, 1.0), shared=False):
    """shared: the Model object is built once (as a model.py with a module-level model does) and every bptk() the factory
    constructs registers that one object - legal, because a scenario manager works on its own copy of what it is given"""
    BPTK_Py = use_repo()
    from BPTK_Py import Model

    def build():
        model = Model(starttime=grid[0], stoptime=grid[0] + (float(stop) - 1.0) * grid[1], dt=grid[1], name="ref")
        k = model.constant("k"); f = model.flow("f"); s = model.stock("s")
        s.initial_value = 0.0
        s.equation = f
        f.equation = k
        k.equation = 1.0
        return model
    once = build() if shared else None

    def factory():
        model = once if shared else build()
        b = BPTK_Py.bptk()
        b.register_scenario_manager({"sm": {"model": model}})
        b.register_scenarios(scenario_manager="sm", scenarios={nm("base"): ({"constants": {"k": 1.0}} if base_constants else {}),
                                                               nm("high"): {"constants": {"k": 5.0}}})
        if two:
            b.register_scenario_manager({"sm2": {"model": model}})
            # the shadow manager also has a scenario that the first manager does not know: sessions name it too
            b.register_scenarios(scenario_manager="sm2", scenarios={nm("base"): {"constants": {"k": K2}}, nm("high"): {"constants": {"k": K2}},
                                                                    "only2": {"constants": {"k": K2}}})
        return b
    return factory


def make_file_factory(stop, base_constants, workdir):
    """the same reference model and scenarios, but delivered the way a deployed server gets them: an XMILE source and a JSON
    scenario file in the scenarios/ folder of the working directory, read by every bptk() the factory constructs"""
    import os
    from . import xmile_gen as X
    BPTK_Py = use_repo()
    os.makedirs(os.path.join(workdir, "scenarios"), exist_ok=True)
    os.makedirs(os.path.join(workdir, "simulation_models"), exist_ok=True)
    name = "ref_srv_%d" % stop
    v = [X.aux("k", "1"),
         '\t\t\t<flow name="f">\n\t\t\t\t<eqn>k</eqn>\n\t\t\t\t<non_negative/>\n\t\t\t</flow>\n',
         '\t\t\t<stock name="s">\n\t\t\t\t<eqn>0</eqn>\n\t\t\t\t<inflow>f</inflow>\n\t\t\t</stock>\n']
    with open(os.path.join(workdir, "simulation_models", name + ".stmx"), "w") as f:
        f.write(X.document(name, v, start="1", stop=str(stop), dt="<dt>1</dt>"))
    scen = {"sm": {"source": "simulation_models/%s.stmx" % name, "model": "simulation_models/%s" % name,
                   "scenarios": {"base": ({"constants": {"k": 1.0}} if base_constants else {}), "high": {"constants": {"k": 5.0}}}}}
    with open(os.path.join(workdir, "scenarios", "server.json"), "w") as f:
        json.dump(scen, f)
    return lambda: BPTK_Py.bptk()


class Srv:
    def __init__(self, stop=4, adapter=False, compress=False, token=None, unit="seconds", state_dir=None, base_constants=False, two=False, grid=(1.0, 1.0),
                 files=False, names=None, shared=False):
        GRID[0], GRID[1] = float(grid[0]), float(grid[1])
        NAMES.update(names or {"base": "base", "high": "high"})
        self._filedir = None
        if files:
            import sys
            self._filedir, self._oldcwd = tempfile.mkdtemp(prefix="vsrvfiles_"), os.getcwd()
            os.chdir(self._filedir)
            sys.path.insert(0, self._filedir)
        self.BPTK_Py = use_repo()
        self.srvmod = importlib.import_module("BPTK_Py.server.bptkServer")
        self.esamod = importlib.import_module("BPTK_Py.externalstateadapter.externalStateAdapter")
        self.clock = Clock()
        self._saved = (self.srvmod.datetime, self.esamod.datetime)
        self.srvmod.datetime = self.clock
        self.esamod.datetime = self.clock
        self.stop, self.unit, self.token, self.compress = stop, unit, token, compress
        self.two = two
        self.factory = make_factory(stop, base_constants, two, grid, shared) if not files else make_file_factory(stop, base_constants, self._filedir)
        self._created = []
        inner = self.factory
        def tracking_factory():
            b = inner()
            self._created.append(b)
            return b
        self.factory = tracking_factory
        self.own_dir = adapter and state_dir is None
        self.state_dir = (state_dir or tempfile.mkdtemp(prefix="vstate_")) if adapter else None
        self.ids = {}       # symbolic -> uuid
        self.destroy_calls = {}
        self.watched = set()
        self._boot()

    def _adapter(self):
        if self.state_dir is None:
            return None
        return self.BPTK_Py.FileAdapter(self.compress, self.state_dir)

    def _boot(self):
        self.app = self.srvmod.BptkServer(__name__, self.factory, external_state_adapter=self._adapter(), bearer_token=self.token)
        self.client = self.app.test_client()

    def close(self):
        try:
            for v in list(self.app._instance_manager._instances.values()):
                try:
                    v["instance"].destroy()
                except Exception:
                    pass
            if self.app._bptk is not None:
                self.app._bptk.destroy()
            for b in self._created:         # also the objects of stopped / swept / lost instances (file monitors are threads)
                try:
                    b.destroy()
                except Exception:
                    pass
        finally:
            self.srvmod.datetime, self.esamod.datetime = self._saved
            if self.own_dir and self.state_dir:
                shutil.rmtree(self.state_dir, ignore_errors=True)
            if self._filedir:
                import sys
                os.chdir(self._oldcwd)
                if self._filedir in sys.path:
                    sys.path.remove(self._filedir)
                shutil.rmtree(self._filedir, ignore_errors=True)

    # -- requests ---------------------------------------------------------------------------------
    def _hdr(self, cred="ok"):
        if self.token is None or cred is None:
            return {}
        return {"Authorization": ("Bearer " + self.token) if cred == "ok" else cred}

    def req(self, method, path, body=None, cred="ok", raw=False):
        kw = {"headers": self._hdr(cred)}
        if body is not None:
            kw["data"] = json.dumps(body)
            kw["content_type"] = "application/json"
        r = self.client.open(path, method=method, **kw)
        if raw:
            return r
        try:
            data = json.loads(r.get_data(as_text=True))
        except Exception:
            data = r.get_data(as_text=True)
        return r.status_code, data

    def uid(self, i):
        return self.ids.get(i, "0" * 32 + str(i))

    def settings(self, sc, k):
        return {"sm": {nm(sc): {"constants": {"k": float(k)}}}}

    def timeout_dict(self, to):
        if self.unit == "mixed":        # tick = 1 second, timeouts spelled with two units
            return {"minutes": to // 60, "seconds": to % 60}
        if self.unit == "mixed2":       # tick = 1 hour
            return {"days": to // 24, "hours": to % 24}
        return {self.unit: to}

    def tick(self, d):
        if self.unit == "mixed":
            self.clock.advance(seconds=d)
        elif self.unit == "mixed2":
            self.clock.advance(hours=d)
        else:
            self.clock.advance(**{self.unit: d})

    def start(self, i, to):
        st, d = self.req("POST", "/start-instance", {"timeout": self.timeout_dict(to)})
        if st == 200:
            self.ids[i] = d["instance_uuid"]
            inst = self.app._instance_manager._instances[d["instance_uuid"]]["instance"]
            self._watch(inst, d["instance_uuid"])
        return st, d

    def start_many(self, ids, to):
        st, d = self.req("POST", "/start-instances", {"instances": len(ids), "timeout": self.timeout_dict(to)})
        if st == 200:
            uuids = d.get("instance_uuids") if isinstance(d, dict) else d
            if not isinstance(uuids, list) or len(uuids) != len(ids) or len(set(uuids)) != len(uuids):
                return 500, "start-instances answered %r" % (d,)
            for i, u in zip(sorted(ids), uuids):
                self.ids[i] = u
                self._watch(self.app._instance_manager._instances[u]["instance"], u)
        return st, d

    def rewatch(self):
        """/load-state replaces the bptk objects of the instances in memory: watch the objects that are there now"""
        for uid, rec in list(self.app._instance_manager._instances.items()):
            if uid in self.watched and not getattr(rec["instance"], "_verif_watched", False):
                self._watch(rec["instance"], uid)

    def _watch(self, inst, uid):
        self.watched.add(uid)
        inst._verif_watched = True
        orig = inst.destroy
        def destroy(*a, **k):
            self.destroy_calls.setdefault(uid, 0)
            self.destroy_calls[uid] += 1
            return orig(*a, **k)
        inst.destroy = destroy

    def begin(self, i, sc, kv):
        body = {"scenario_managers": ["sm", "sm2"] if self.two else ["sm"], "scenarios": [nm(sc), "only2"] if self.two else [nm(sc)], "equations": ["s", "f", "k"]}
        if kv > 0:
            body["settings"] = self.settings(sc, kv)
        return self.req("POST", "/%s/begin-session" % self.uid(i), body)

    def step(self, i, set_, sc):
        if set_ == -1:
            return self.req("POST", "/%s/run-step" % self.uid(i))
        body = {"settings": self.settings(sc, set_) if set_ > 0 else {}}
        return self.req("POST", "/%s/run-step" % self.uid(i), body)

    def step_lost(self, i, set_, sc, frac):
        """run-step of i, with the process lost inside the externalisation of the result: at the point where the new state is
        about to be installed (os.replace / os.rename into the state directory), after `frac` of its text reached the disk.
        Returns True if the fault could be placed (the adapter installs by rename), False otherwise (nothing was injected)."""
        class ProcessLost(BaseException):
            pass
        fired = []
        real_replace, real_rename = os.replace, os.rename

        def lost(real, src, dst, *a, **kw):
            if os.path.abspath(os.path.dirname(str(dst))) == os.path.abspath(self.state_dir) and not fired:
                fired.append(str(src))
                if frac != "full":
                    with open(src, "rb") as f:
                        data = f.read()
                    with open(src, "wb") as f:
                        f.write(data[:0 if frac == "none" else len(data) // 2])
                raise ProcessLost()
            return real(src, dst, *a, **kw)
        os.replace = lambda *a, **kw: lost(real_replace, *a, **kw)
        os.rename = lambda *a, **kw: lost(real_rename, *a, **kw)
        try:
            self.step(i, set_, sc)
        except ProcessLost:
            pass
        finally:
            os.replace, os.rename = real_replace, real_rename
        self.crash()
        return bool(fired)

    def steps(self, i, n, set_, sc):
        body = {"numberSteps": n, "settings": self.settings(sc, set_) if set_ > 0 else {}}
        return self.req("POST", "/%s/run-steps" % self.uid(i), body)

    # -- stream-steps at the granularity a client sees it ------------------------------------------------
    def _read_result(self, i):
        """the next result object of the open stream of i (None when the stream has ended)"""
        r, it = self.streams[i]
        for ch in it:
            ch = ch.decode() if isinstance(ch, bytes) else ch
            if ch.lstrip().startswith("{"):
                return json.loads(ch)
        return None

    def stream_open(self, i, set_, sc):
        if not hasattr(self, "streams"):
            self.streams = {}
        body = {"settings": self.settings(sc, set_) if set_ > 0 else {}}
        r = self.client.post("/%s/stream-steps" % self.uid(i), data=json.dumps(body), content_type="application/json", buffered=False,
                             headers=self._hdr())
        if r.status_code != 200:
            data = r.get_data(as_text=True)
            r.close()
            return r.status_code, data
        probe = iter(r.response)
        first = next(probe, b"")
        first = first.decode() if isinstance(first, bytes) else first
        if not first.startswith("["):          # an error body, not a stream
            r.close()
            try:
                return (500 if "error" in first else r.status_code), json.loads(first)
            except Exception:
                return 500, first
        self.streams[i] = (r, probe)
        return 200, self._read_result(i)

    def stream_next(self, i):
        if i not in getattr(self, "streams", {}):
            return 500, "no open stream"
        d = self._read_result(i)
        return (200, d) if d is not None else (500, "stream ended")

    def stream_close(self, i):
        if i not in getattr(self, "streams", {}):
            return 500, "no open stream"
        r, it = self.streams.pop(i)
        for _ in ([] if True else it):
            pass
        try:
            it.close() if hasattr(it, "close") else None
        finally:
            r.close()
        return 200, None

    def crash(self):
        """the process is lost: nothing of the old server object survives except the state directory"""
        old = self.app
        self.watched = set()
        for v in list(old._instance_manager._instances.values()):
            try:
                v["instance"].destroy()
            except Exception:
                pass
        if old._bptk is not None:
            old._bptk.destroy()
        self._boot()

    def alive(self):
        st, d = self.req("GET", "/full-metrics", cred=None)
        inv = {v: k for k, v in self.ids.items()}
        return st, sorted(inv[k] for k in d if k in inv), {inv[k]: spec_t(d[k]["step"]) for k in d if k in inv}, d


def _shadow_ok(eqs, t):
    """the shadow manager sm2 is never touched by settings: s = K2*(t-1), f = k = K2"""
    return abs(spec_s(eqs["s"][t]) - K2 * (spec_t(t) - 1)) < 1e-9 and abs(eqs["f"][t] - K2) < 1e-9 and abs(eqs["k"][t] - K2) < 1e-9


def row_of(data, sc, two=False):
    """project a run-step body to the spec's row"""
    sc = nm(sc)
    if data is None:
        return {"msg": "null"}
    if isinstance(data, dict) and "msg" in data:
        return {"msg": data["msg"]}
    try:
        if two:
            e2 = data["sm2"][sc]
            t2 = list(e2["s"].keys())
            if len(t2) != 1 or not _shadow_ok(e2, t2[0]):
                return {"bad": "shadow manager sm2: %s" % json.dumps(e2)[:200]}
        eqs = data["sm"][sc]
        ts = set()
        for e in ("s", "f", "k"):
            ts |= set(eqs[e].keys())
        if len(ts) != 1:
            return {"bad": "times %s" % sorted(ts)}
        t = list(ts)[0]
        return {"t": spec_t(t), "s": spec_s(eqs["s"][t]), "f": eqs["f"][t], "k": eqs["k"][t]}
    except Exception as e:
        return {"bad": "%s: %s in %s" % (type(e).__name__, e, json.dumps(data)[:200])}


def rows_of(data, sc, two=False):
    """project a session-results body to the spec's row list"""
    sc = nm(sc)
    if data == {}:
        return []
    try:
        if two:
            e2 = data["sm2"][sc]["equations"]
            for t in e2["s"]:
                if not _shadow_ok(e2, t):
                    return [{"bad": "shadow manager sm2 at %s: %s" % (t, json.dumps(e2)[:200])}]
            if sorted(e2["s"]) != sorted(data["sm"][sc]["equations"]["s"]):
                return [{"bad": "shadow manager sm2 times %s" % sorted(e2["s"])}]
        eqs = data["sm"][sc]["equations"]
        ts = sorted(set(float(t) for e in eqs.values() for t in e))
        out = []
        for t in ts:
            r = {"t": spec_t(t)}
            for e in ("s", "f", "k"):
                vals = [v for tt, v in eqs[e].items() if float(tt) == t]
                if len(vals) != 1:
                    return [{"bad": "equation %s at %s: %s" % (e, t, vals)}]
                r[e] = spec_s(vals[0]) if e == "s" else vals[0]
            out.append(r)
        return out
    except Exception as e:
        return [{"bad": "%s: %s in %s" % (type(e).__name__, e, json.dumps(data)[:200])}]
