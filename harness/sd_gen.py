"""Parameter menus and trajectories out of spec/SdModel.tla (shared by C01 and C04)."""
import hashlib, json, os
from fractions import Fraction
from . import tlc
from .common import VERIF


def q(x):
    f = Fraction(x).limit_denominator(10000)
    return "<<%d, %d>>" % (f.numerator, f.denominator)


def pts(points):
    return "<< " + ", ".join("<<%s, %s>>" % (q(x), q(y)) for x, y in points) + " >>"


def param(s0=0, a=1, b=0, qf=0, g=0, points=((0, 0), (2, 4), (4, 2), (8, 10)), dn=2, dinit=None, T=2, sinit=1, tinit=2,
          h=3, t0=1, pv=2, pfirst=1, pint=2, xti=0, pinit=0, hz=2):
    return ("[s0 |-> %s, a |-> %s, b |-> %s, q |-> %s, g |-> %s, pts |-> %s, dn |-> %d, dinit |-> %s, T |-> %s, sinit |-> %s, "
            "tinit |-> %s, h |-> %s, t0 |-> %s, pv |-> %s, pfirst |-> %d, pint |-> %d, xti |-> %s, pinit |-> %s, hz |-> %s]") % (
        q(s0), q(a), q(b), q(qf), q(g), pts(points), dn, "<<0, 0>>" if dinit is None else q(dinit), q(T), q(sinit), q(tinit),
        q(h), q(t0), q(pv), pfirst, pint, q(xti), q(pinit), q(hz))


PARAMS = [
    param(),                                                                   # rising input from 0
    param(s0=6, a=1, b=2, qf=Fraction(1, 4), g=-Fraction(3, 4), sinit=2, tinit=3, dinit=1),      # a flow with a negative number as its rate (clamped)
    param(s0=10, a=-1, b=-3, qf=0, g=1, dinit=5, sinit=4, tinit=5, xti=Fraction(1, 2), pinit=3),             # falling input crossing zero (clamp + falling average)
    param(s0=4, a=2, b=3, qf=Fraction(1, 2), g=0, dn=1, T=1, sinit=0, tinit=1, xti=-Fraction(1, 4), pinit=-2, hz=1, t0=0, dinit=0),    # first-order outflow
    param(s0=8, a=0, b=-2, qf=Fraction(1, 4), g=Fraction(1, 2), dn=3, dinit=7, T=4, h=-2, t0=2, pint=0, xti=1, hz=3),
    param(s0=0, a=-2, b=-5, qf=0, g=3, points=((1, 5), (2, 1), (3, 1), (5, 9)), dn=0, T=Fraction(1, 2), sinit=6, tinit=4, pfirst=0, pint=1),
    param(s0=1, a=Fraction(1, 2), b=1, qf=1, g=0, points=((-2, -1), (0, 0), (1, 3)), dn=2, T=2, sinit=-1, tinit=3, t0=Fraction(3, 2), pfirst=2, pint=3),
]
QUICK_RS = [(0, 1, 6), (1, Fraction(1, 2), 8), (1, Fraction(1, 4), 8), (0, Fraction(1, 10), 12), (Fraction(1, 2), Fraction(1, 5), 8), (2, 2, 4)]
MORE_RS = [(0, Fraction(1, 20), 14), (1, Fraction(1, 8), 10), (Fraction(1, 10), Fraction(1, 10), 12), (10, Fraction(1, 2), 6), (0, Fraction(3, 10), 8)]


# run specs whose dt has no terminating decimal expansion (XMILE: <dt reciprocal="true">3</dt>)
RECIPROCAL_RS = [(0, Fraction(1, 3), 6), (1, Fraction(1, 12), 12), (0, Fraction(1, 6), 9)]


def runspec(start, dt, n):
    return "[start |-> %s, dt |-> %s, n |-> %d]" % (q(start), q(dt), n)


def trajectories(params, runspecs, cache=True):
    consts = dict(Params="{" + ", ".join(params) + "}", RunSpecs="{" + ", ".join(runspec(*r) for r in runspecs) + "}")
    h = hashlib.sha256()
    for fn in ("SdModel.tla", "Rat.tla"):
        with open(os.path.join(tlc.SPEC_DIR, fn), "rb") as f:
            h.update(f.read())
    h.update(json.dumps(consts, sort_keys=True).encode())
    path = os.path.join(VERIF, "cache", "SdModel_%s.json" % h.hexdigest()[:24])
    if cache and os.path.exists(path):
        with open(path) as f:
            d = json.load(f)
        return d["trajs"], d["stats"]
    r = tlc.run("SdModel", consts, invariants=["EulerRelation", "FlowsNonNegative", "GridExact", "Emit"], spec="Spec", workers=8, timeout=1200)
    if r.violation:
        raise tlc.TlcError("SdModel violated %s\n%s" % (r.violation, r.trace[:2000]))
    stats = {"distinct": r.distinct, "generated": r.generated, "wall": round(r.wall, 1)}
    if cache:
        os.makedirs(os.path.dirname(path), exist_ok=True)
        with open(path + ".tmp", "w") as f:
            json.dump({"trajs": r.emitted, "stats": stats}, f)
        os.replace(path + ".tmp", path)
    return r.emitted, stats


def fr(v):
    """JSON rational -> Fraction or None (undefined)"""
    return None if v[1] == 0 else Fraction(v[0], v[1])
